(** The operations of Tree.v on canonical trees: split cuts, merge concatenates, insert / delete
    produce the canonical tree of the updated list, grow / shrink change the level.  Every statement
    is about arbitrary residency (through [erase]) and includes that the operation does not fail.
    Lemma file. *)
From Coq Require Import List NArith ZArith Lia Bool Sorted.
From Mast Require Import Prim Tree Erase Build Spec.
Import ListNotations.

(** * succeeding computations *)
Definition oks {A} (m : M A) (P : A -> Prop) : Prop := exists t a, m = (t, Ok a) /\ P a.

Lemma oks_ret {A} (a : A) (P : A -> Prop) : P a -> oks (ret a) P.
Proof. intros H. exists [], a. split; [reflexivity|exact H]. Qed.

Lemma oks_bind {A B} (m : M A) (f : A -> M B) (P : A -> Prop) (Q : B -> Prop) :
  oks m P -> (forall a, P a -> oks (f a) Q) -> oks (bind m f) Q.
Proof.
  intros (t & a & E & Pa) H. destruct (H a Pa) as (t' & b & E' & Qb).
  exists (t ++ t'), b. split; [|exact Qb]. unfold bind. rewrite E, E'. reflexivity.
Qed.

Lemma oks_tick {B} e (k : M B) (Q : B -> Prop) : oks k Q -> oks (bind (tick e) (fun _ => k)) Q.
Proof.
  intros H. apply (oks_bind (tick e) (fun _ => k) (fun _ => True) Q).
  - exists [e], tt. split; [reflexivity|exact I].
  - intros; exact H.
Qed.

Lemma oks_weaken {A} (m : M A) (P Q : A -> Prop) : oks m P -> (forall a, P a -> Q a) -> oks m Q.
Proof. intros (t & a & E & Pa) H. exists t, a. split; [exact E|apply H; exact Pa]. Qed.

Section CANON.
Variables K V : Type.
Variable cmp : K -> K -> comparison.
Variable veq : V -> V -> bool.
Variable layer : K -> nat.
Hypothesis cmp_eq : forall a b, cmp a b = Eq <-> a = b.
Hypothesis cmp_antisym : forall a b, cmp b a = CompOpp (cmp a b).
Hypothesis cmp_trans : forall a b c, cmp a b = Lt -> cmp b c = Lt -> cmp a c = Lt.

Notation node := (node K V).
Notation link := (link K V).
Notation entry := (entry K V).
Notation kv := (K * V)%type.
Notation seg := (seg K V).
Notation pseg := (pseg K V).
Notation segs := (segs K V layer).
Notation bnode := (bnode K V layer).
Notation build := (build K V layer).
Notation subl := (subl K V layer).
Notation erase_n := (erase_n K V).
Notation erase_l := (erase_l K V).
Notation erase_e := (erase_e K V).
Notation mk_es := (mk_es K V).

Definition lt (a b : K) : Prop := cmp a b = Lt.
Definition all_lt (l : seg) (k : K) : Prop := Forall (fun x : kv => lt (fst x) k) l.
Definition all_gt (l : seg) (k : K) : Prop := Forall (fun x : kv => lt k (fst x)) l.
Definition sorted (l : seg) : Prop := StronglySorted (fun x y : kv => lt (fst x) (fst y)) l.

Lemma lt_irrefl a : ~ lt a a.
Proof. unfold lt. intros H. assert (E : cmp a a = Eq) by (apply cmp_eq; reflexivity). congruence. Qed.
Lemma lt_gt a b : lt a b -> cmp b a = Gt.
Proof. unfold lt. intros H. rewrite cmp_antisym, H. reflexivity. Qed.
Lemma klt_true a b : klt _ cmp a b = true <-> lt a b.
Proof. unfold klt, lt. destruct (cmp a b); split; congruence. Qed.
Lemma keq_true a b : keq _ cmp a b = true <-> a = b.
Proof. unfold keq. rewrite <- cmp_eq. destruct (cmp a b); split; congruence. Qed.
Lemma not_lt_gt a b : lt a b -> klt _ cmp b a = false.
Proof. intros H. unfold klt. rewrite (lt_gt _ _ H). reflexivity. Qed.
Lemma lt_not_eq a b : lt a b -> keq _ cmp a b = false.
Proof. unfold lt, keq. intros ->. reflexivity. Qed.
Lemma gt_not_eq a b : lt b a -> keq _ cmp a b = false.
Proof. intros H. unfold keq. rewrite (lt_gt _ _ H). reflexivity. Qed.

(** * decomposition facts *)
Lemma node_inv n d l :
  erase_n n = bnode d l ->
  erase_l (n_l0 _ _ n) = subl d (fst (segs d l)) /\
  map erase_e (n_es _ _ n) = mk_es (subl d) (snd (segs d l)).
Proof.
  rewrite erase_n_unfold, bnode_eq. unfold mk_dirty. intros H. inversion H. split; reflexivity.
Qed.

Lemma erase_l_nil l : erase_l l = LNil -> l = LNil.
Proof. destruct l; cbn; congruence. Qed.

(* entries of the decomposition are entries of the list *)
Lemma flat_in (s0 : seg) (ps : list pseg) x :
  In x (flat K V s0 ps) <-> In x s0 \/ exists p, In p ps /\ (x = (pkey _ _ p, pval _ _ p) \/ In x (pseg_of _ _ p)).
Proof.
  unfold flat. rewrite in_app_iff, in_flat_map. split.
  - intros [H|(p & Hp & Hx)]; [left; exact H|]. right. exists p. split; [exact Hp|].
    destruct Hx as [Hx|Hx]; [left; symmetry; exact Hx|right; exact Hx].
  - intros [H|(p & Hp & Hx)]; [left; exact H|]. right. exists p. split; [exact Hp|].
    destruct Hx as [Hx|Hx]; [left; symmetry; exact Hx|right; exact Hx].
Qed.

Lemma segs_Forall (P : kv -> Prop) d l :
  Forall P l ->
  Forall P (fst (segs d l)) /\
  Forall (fun p : pseg => P (pkey _ _ p, pval _ _ p) /\ Forall P (pseg_of _ _ p)) (snd (segs d l)).
Proof.
  induction 1 as [|[k v] r Hx _ [IH1 IH2]]; [split; constructor|].
  cbn [Build.segs]. destruct (segs d r) as [s0 ps]. cbn [fst snd] in *.
  destruct (Nat.leb d (layer k)); cbn [fst snd].
  - split; [constructor|]. constructor; [split; assumption|assumption].
  - split; [constructor; assumption|assumption].
Qed.

Lemma last_seg_Forall (P : kv -> Prop) (s0 : seg) (ps : list pseg) :
  Forall P s0 -> Forall (fun p : pseg => P (pkey _ _ p, pval _ _ p) /\ Forall P (pseg_of _ _ p)) ps ->
  Forall P (last_seg K V s0 ps).
Proof.
  intros H0 Hps. unfold last_seg. destruct (rev ps) as [|p r] eqn:E; [exact H0|].
  assert (Hin : In p ps) by (apply in_rev; rewrite E; left; reflexivity).
  rewrite Forall_forall in Hps. apply (Hps p Hin).
Qed.

(* span_lt on canonical entry lists *)
Lemma span_lt_all_lt (sub : seg -> link) k (psa psb : list pseg) :
  Forall (fun p : pseg => lt (pkey _ _ p) k) psa ->
  (match psb with [] => True | p :: _ => ~ lt (pkey _ _ p) k end) ->
  span_lt _ _ cmp k (mk_es sub psa ++ mk_es sub psb) = (mk_es sub psa, mk_es sub psb).
Proof.
  induction 1 as [|p r Hp _ IH]; intros Hb.
  - cbn [Build.mk_es map app]. destruct psb as [|p r]; [reflexivity|].
    cbn [Build.mk_es map span_lt ekey fst]. destruct (klt _ cmp (pkey _ _ p) k) eqn:E; [|reflexivity].
    apply klt_true in E. contradiction.
  - cbn [Build.mk_es map app span_lt ekey fst]. apply klt_true in Hp. rewrite Hp.
    change (map (fun p0 : pseg => (pkey _ _ p0, pval _ _ p0, sub (pseg_of _ _ p0))) r) with (mk_es sub r).
    rewrite (IH Hb). reflexivity.
Qed.


Definition all_ge (l : seg) (k : K) : Prop := Forall (fun x : kv => ~ lt (fst x) k) l.

Lemma all_gt_ge l k : all_gt l k -> all_ge l k.
Proof.
  unfold all_gt, all_ge. apply Forall_impl. intros x H H'. unfold lt in *.
  rewrite cmp_antisym, H in H'. discriminate.
Qed.

(** the shape of a canonical node around a cut: its list is a ++ b with a < k <= b *)
Lemma cut_node n d a b k s0a psa s0b psb s0' psa' :
  erase_n n = bnode d (a ++ b) ->
  all_lt a k -> all_ge b k ->
  segs d a = (s0a, psa) -> segs d b = (s0b, psb) ->
  set_last_seg K V s0a psa (last_seg K V s0a psa ++ s0b) = (s0', psa') ->
  erase_l (n_l0 _ _ n) = subl d s0' /\
  map erase_e (fst (span_lt _ _ cmp k (n_es _ _ n))) = mk_es (subl d) psa' /\
  map erase_e (snd (span_lt _ _ cmp k (n_es _ _ n))) = mk_es (subl d) psb.
Proof.
  intros He Ha Hb Ea Eb Es.
  destruct (node_inv _ _ _ He) as [H0 Hes].
  rewrite segs_app, Ea, Eb, Es in H0, Hes. cbn [fst snd] in H0, Hes.
  split; [exact H0|].
  pose proof (span_lt_erase K V cmp k (n_es _ _ n)) as Hsp.
  rewrite Hes, mk_es_app in Hsp.
  rewrite span_lt_all_lt in Hsp.
  - inversion Hsp. split; reflexivity.
  - (* pivots of the left part are entries of a *)
    assert (Hk : map (pkey K V) psa' = map (pkey K V) psa).
    { pose proof (set_last_seg_keys K V s0a psa (last_seg K V s0a psa ++ s0b)) as Q. rewrite Es in Q. exact Q. }
    pose proof (segs_Forall (fun x => lt (fst x) k) d a Ha) as [_ Hps]. rewrite Ea in Hps. cbn [snd] in Hps.
    assert (Hpk : Forall (fun q : K => lt q k) (map (pkey K V) psa)).
    { clear -Hps. induction Hps as [|p r [Hp _] _ IH]; constructor; [exact Hp|exact IH]. }
    rewrite <- Hk in Hpk. clear -Hpk. induction psa' as [|p r IH]; [constructor|].
    inversion Hpk; subst. constructor; [assumption|apply IH; assumption].
  - destruct psb as [|p r]; [exact I|].
    pose proof (segs_Forall (fun x => ~ lt (fst x) k) d b Hb) as [_ Hps]. rewrite Eb in Hps. cbn [snd] in Hps.
    inversion Hps as [|? ? [Hp _] _]; subst. exact Hp.
Qed.

(** * split (lib.go:82-181) cuts the canonical tree of a ++ b, a < k < b, into those of a and b *)
Lemma hits_false_gt k (sub : seg -> link) (psb : list pseg) (rs : list entry) :
  map erase_e rs = mk_es sub psb ->
  Forall (fun p : pseg => lt k (pkey _ _ p)) psb ->
  hits _ _ cmp k rs = false.
Proof.
  intros Hm Hp. rewrite <- (hits_erase K V cmp), Hm. destruct psb as [|p r]; [reflexivity|].
  cbn [Build.mk_es map hits ekey fst]. inversion Hp; subst. apply gt_not_eq. assumption.
Qed.

Definition split_post (d : nat) (a b : seg) (r : link * link) : Prop :=
  erase_l (fst r) = build d a /\ erase_l (snd r) = build d b.

(* what the recursive calls of split do to the child link representing la ++ sb *)
Lemma split_child d f k (c : link) (la sb : seg) :
  (forall d', d = S d' -> forall n a b, erase_n n = bnode d' (a ++ b) -> all_lt a k -> all_gt b k ->
      oks (split _ _ cmp f k n) (split_post d' a b)) ->
  erase_l c = subl d (la ++ sb) -> all_lt la k -> all_gt sb k ->
  oks (on_link _ _ c (LNil, LNil) (split _ _ cmp f k))
      (fun r => erase_l (fst r) = subl d la /\ erase_l (snd r) = subl d sb).
Proof.
  intros IH Hc Hla Hsb.
  destruct d as [|d'].
  - cbn [Build.subl] in *. apply erase_l_nil in Hc. subst c. cbn [on_link]. apply oks_ret. split; reflexivity.
  - cbn [Build.subl] in *. destruct (la ++ sb) as [|x r] eqn:E.
    + rewrite build_nil in Hc. apply erase_l_nil in Hc. subst c. cbn [on_link]. apply oks_ret.
      apply app_eq_nil in E. destruct E; subst. rewrite build_nil. split; reflexivity.
    + rewrite build_not_nil in Hc by discriminate.
      destruct (load_erase _ _ _ _ Hc) as (t & c' & Hl & Hc').
      assert (Hon : on_link _ _ c (LNil, LNil) (split _ _ cmp f k) = bind (load _ _ c) (split _ _ cmp f k)).
      { destruct c; cbn in Hc; try discriminate; reflexivity. }
      rewrite Hon. apply (oks_bind _ _ (fun c0 : node => erase_n c0 = bnode d' (la ++ sb))).
      * exists t, c'. split; [exact Hl|]. rewrite E. exact Hc'.
      * intros n Hn. exact (IH d' eq_refl n la sb Hn Hla Hsb).
Qed.

Lemma set_last_link_erase' (l0 : link) (es : list entry) nl a b :
  set_last_link _ _ l0 es nl = (a, b) ->
  set_last_link _ _ (erase_l l0) (map erase_e es) (erase_l nl) = (erase_l a, map erase_e b).
Proof. intros H. rewrite <- set_last_link_erase, H. reflexivity. Qed.

Lemma bnode_of_segs d l s0 ps : segs d l = (s0, ps) -> bnode d l = mk_dirty _ _ (subl d s0) (mk_es (subl d) ps).
Proof. intros E. rewrite bnode_eq, E. reflexivity. Qed.

Lemma split_spec : forall d fuel n a b k,
  d < fuel ->
  erase_n n = bnode d (a ++ b) ->
  all_lt a k -> all_gt b k ->
  oks (split _ _ cmp fuel k n) (split_post d a b).
Proof.
  induction d as [d IHd] using lt_wf_ind; intros fuel n a b k Hf He Ha Hb.
  destruct fuel as [|f]; [lia|]. cbn [split]. apply oks_tick.
  destruct (segs d a) as [s0a psa] eqn:Ea. destruct (segs d b) as [s0b psb] eqn:Eb.
  destruct (set_last_seg K V s0a psa (last_seg K V s0a psa ++ s0b)) as [s0' psa'] eqn:Es.
  destruct (cut_node _ _ _ _ _ _ _ _ _ _ _ He Ha (all_gt_ge _ _ Hb) Ea Eb Es) as (H0 & Hl & Hr).
  destruct (span_lt _ _ cmp k (n_es _ _ n)) as [les rs]. cbn [fst snd] in Hl, Hr.
  pose proof (segs_Forall (fun x => lt k (fst x)) d b Hb) as [Hgb0 Hgb]. rewrite Eb in Hgb0, Hgb. cbn [fst snd] in Hgb0, Hgb.
  pose proof (segs_Forall (fun x => lt (fst x) k) d a Ha) as [Hla0 Hla]. rewrite Ea in Hla0, Hla. cbn [fst snd] in Hla0, Hla.
  assert (Hh : hits _ _ cmp k rs = false).
  { eapply hits_false_gt; [exact Hr|]. eapply Forall_impl; [|exact Hgb]. intros p [Hp _]. exact Hp. }
  rewrite Hh.
  set (la := last_seg K V s0a psa) in *.
  assert (Hla' : all_lt la k) by (apply last_seg_Forall; assumption).
  (* the child straddling k *)
  assert (Hchild : erase_l (last_link _ _ (n_l0 _ _ n) les) = subl d (la ++ s0b)).
  { rewrite last_link_erase, H0, Hl, last_link_mk_es.
    pose proof (last_seg_set K V s0a psa (la ++ s0b)) as Q. rewrite Es in Q. rewrite Q. reflexivity. }
  assert (IH' : forall d', d = S d' -> forall n a b, erase_n n = bnode d' (a ++ b) -> all_lt a k -> all_gt b k ->
                 oks (split _ _ cmp f k n) (split_post d' a b)).
  { intros d' -> n' a' b' Hn' Ha' Hb'. apply IHd; [lia|lia|assumption..]. }
  eapply oks_bind; [exact (split_child d f k _ la s0b IH' Hchild Hla' Hgb0)|].
  intros [lm' tooBig] [Hlm HtB]. cbn [fst snd] in Hlm, HtB.
  destruct (set_last_link _ _ (n_l0 _ _ n) les lm') as [l0' les'] eqn:Esl.
  assert (HtB' : erase_l tooBig = subl d ([] ++ s0b)) by exact HtB.
  eapply oks_bind; [exact (split_child d f k _ [] s0b IH' HtB' (Forall_nil _) Hgb0)|].
  intros [tooSmall rm'] [Hts Hrm]. cbn [fst snd] in Hts, Hrm.
  rewrite subl_nil in Hts. apply erase_l_nil in Hts. subst tooSmall. cbn [is_nil].
  apply oks_ret. unfold split_post. cbn [fst snd]. rewrite !link_of_erase, !erase_mk_dirty. unfold build. split.
  - (* left: the node of a *)
    apply set_last_link_erase' in Esl. rewrite H0, Hl, Hlm, set_last_link_mk_es in Esl.
    pose proof (set_last_seg_twice K V s0a psa (la ++ s0b) la) as Q. rewrite Es in Q.
    unfold la in Q at 2. rewrite set_last_seg_id in Q. rewrite Q in Esl. inversion Esl.
    rewrite (bnode_of_segs _ _ _ _ Ea). reflexivity.
  - rewrite Hrm, Hr, (bnode_of_segs _ _ _ _ Eb). reflexivity.
Qed.

(** * mergeNodes (lib.go:601-643) concatenates canonical trees; no order hypothesis is needed *)
Lemma build_ptr_inv d l (x : link) m : erase_l x = build d l -> build d l = LPtr m -> l <> [] /\ m = bnode d l.
Proof.
  intros _ Hb. destruct l as [|y l]; [rewrite build_nil in Hb; discriminate|].
  rewrite build_not_nil in Hb by discriminate. inversion Hb. split; [discriminate|reflexivity].
Qed.

Lemma load_build d l (x : link) :
  erase_l x = build d l -> l <> [] ->
  oks (load _ _ x) (fun c => erase_n c = bnode d l) /\ x <> LNil.
Proof.
  intros Hx Hl. rewrite build_not_nil in Hx by exact Hl.
  destruct (load_erase _ _ _ _ Hx) as (t & c & Hld & Hc).
  split; [exists t, c; split; assumption|]. intros ->. discriminate.
Qed.

Lemma merge_spec : forall d fuel (x y : link) (sa sb : seg),
  d < fuel ->
  erase_l x = build d sa -> erase_l y = build d sb ->
  oks (merge _ _ fuel x y) (fun r => erase_l r = build d (sa ++ sb)).
Proof.
  induction d as [d IHd] using lt_wf_ind; intros fuel x y sa sb Hf Hx Hy.
  destruct sa as [|xa sa'].
  { rewrite build_nil in Hx. apply erase_l_nil in Hx. subst x. destruct fuel; cbn [merge]; apply oks_ret; exact Hy. }
  destruct sb as [|xb sb'].
  { rewrite build_nil in Hy. apply erase_l_nil in Hy. subst y. rewrite app_nil_r.
    destruct fuel; destruct x; cbn [merge]; apply oks_ret; exact Hx. }
  destruct (load_build d _ x Hx ltac:(discriminate)) as [Lx Nx].
  destruct (load_build d _ y Hy ltac:(discriminate)) as [Ly Ny].
  destruct fuel as [|f]; [lia|].
  assert (Em : merge _ _ (S f) x y =
               (let* na := load _ _ x in
                let* nb := load _ _ y in
                let* m := merge _ _ f (last_link _ _ (n_l0 _ _ na) (n_es _ _ na)) (n_l0 _ _ nb) in
                let (l0', aes') := set_last_link _ _ (n_l0 _ _ na) (n_es _ _ na) m in
                ret (LPtr (mk_dirty _ _ l0' (aes' ++ n_es _ _ nb))))).
  { destruct x; try contradiction; destruct y; try contradiction; reflexivity. }
  rewrite Em. clear Em.
  set (la := xa :: sa') in *. set (lb := xb :: sb') in *.
  apply (oks_bind _ _ _ _ Lx). intros na Hna.
  apply (oks_bind _ _ _ _ Ly). intros nb Hnb.
  destruct (segs d la) as [s0a psa] eqn:Ea. destruct (segs d lb) as [s0b psb] eqn:Eb.
  destruct (node_inv _ _ _ Hna) as [Ha0 Haes]. rewrite Ea in Ha0, Haes. cbn [fst snd] in Ha0, Haes.
  destruct (node_inv _ _ _ Hnb) as [Hb0 Hbes]. rewrite Eb in Hb0, Hbes. cbn [fst snd] in Hb0, Hbes.
  assert (Hmid : oks (merge _ _ f (last_link _ _ (n_l0 _ _ na) (n_es _ _ na)) (n_l0 _ _ nb))
                     (fun m => erase_l m = subl d (last_seg K V s0a psa ++ s0b))).
  { assert (Hll : erase_l (last_link _ _ (n_l0 _ _ na) (n_es _ _ na)) = subl d (last_seg K V s0a psa))
      by (rewrite last_link_erase, Ha0, Haes, last_link_mk_es; reflexivity).
    destruct d as [|d'].
    - cbn [Build.subl] in *. apply erase_l_nil in Hll. apply erase_l_nil in Hb0. rewrite Hll, Hb0.
      destruct f; cbn [merge]; apply oks_ret; reflexivity.
    - cbn [Build.subl] in *. apply (IHd d'); [lia|lia|exact Hll|exact Hb0]. }
  apply (oks_bind _ _ _ _ Hmid). intros m Hm. cbn beta in Hm.
  destruct (set_last_link _ _ (n_l0 _ _ na) (n_es _ _ na) m) as [l0' aes'] eqn:Esl.
  apply oks_ret. cbn [Erase.erase_l]. rewrite build_not_nil by (unfold la; discriminate).
  f_equal. rewrite erase_mk_dirty, map_app.
  apply set_last_link_erase' in Esl. rewrite Ha0, Haes, Hm, set_last_link_mk_es in Esl.
  destruct (set_last_seg K V s0a psa (last_seg K V s0a psa ++ s0b)) as [s0' psa'] eqn:Es.
  inversion Esl. rewrite Hbes, <- mk_es_app.
  symmetry. apply bnode_of_segs. rewrite segs_app, Ea, Eb, Es. reflexivity.
Qed.

(** * the pieces of a decomposition *)
Lemma last_seg_suffix d a s0a psa : segs d a = (s0a, psa) -> exists a1, a = a1 ++ last_seg K V s0a psa.
Proof.
  intros E. pose proof (segs_flat K V layer d a) as F. rewrite E in F. cbn [fst snd] in F. unfold flat in F.
  destruct psa as [|p ps'] using rev_ind.
  - exists []. cbn in F. rewrite app_nil_r in F. symmetry. exact F.
  - rewrite last_seg_snoc. rewrite flat_map_app in F. cbn [flat_map] in F. rewrite app_nil_r in F.
    exists (s0a ++ flat_map (fun p0 : pseg => (pkey _ _ p0, pval _ _ p0) :: pseg_of _ _ p0) ps' ++ [(pkey _ _ p, pval _ _ p)]).
    rewrite <- F. rewrite <- !app_assoc. reflexivity.
Qed.

Lemma all_lt_app_inv a b k : all_lt (a ++ b) k -> all_lt a k /\ all_lt b k.
Proof. unfold all_lt. rewrite Forall_app. tauto. Qed.

Lemma segs_head_pivot d k v b :
  d <= layer k -> segs d ((k, v) :: b) = ([], (k, v, fst (segs d b)) :: snd (segs d b)).
Proof. intros H. cbn [Build.segs]. destruct (segs d b). apply Nat.leb_le in H. rewrite H. reflexivity. Qed.
Lemma segs_head_nonpivot d k v b :
  layer k < d -> segs d ((k, v) :: b) = ((k, v) :: fst (segs d b), snd (segs d b)).
Proof. intros H. cbn [Build.segs]. destruct (segs d b). apply Nat.leb_gt in H. rewrite H. reflexivity. Qed.

Lemma all_ge_present b k v : all_gt b k -> all_ge ((k, v) :: b) k.
Proof. intros H. constructor; [apply lt_irrefl|apply all_gt_ge; exact H]. Qed.

Lemma on_load {A} (l : link) (dflt : M A) (f : node -> M A) :
  l <> LNil ->
  match l with LNil => dflt | _ => let* c := load _ _ l in f c end = (let* c := load _ _ l in f c).
Proof. destruct l; intros H; try contradiction; reflexivity. Qed.

(** * findNode + Get (pub.go:351-389, lib.go:194-253) *)
Lemma get_absent : forall cur fuel n a b k target,
  cur < fuel -> target = Nat.min (layer k) cur ->
  erase_n n = bnode cur (a ++ b) -> all_lt a k -> all_gt b k ->
  oks (get_node _ _ cmp fuel cur target k n) (fun r => r = None).
Proof.
  induction cur as [cur IH] using lt_wf_ind; intros fuel n a b k target Hf Ht He Ha Hb.
  destruct fuel as [|f]; [lia|]. cbn [get_node]. apply oks_tick.
  destruct (segs cur a) as [s0a psa] eqn:Ea. destruct (segs cur b) as [s0b psb] eqn:Eb.
  destruct (set_last_seg K V s0a psa (last_seg K V s0a psa ++ s0b)) as [s0' psa'] eqn:Es.
  destruct (cut_node _ _ _ _ _ _ _ _ _ _ _ He Ha (all_gt_ge _ _ Hb) Ea Eb Es) as (H0 & Hl & Hr).
  destruct (span_lt _ _ cmp k (n_es _ _ n)) as [les rs]. cbn [fst snd] in Hl, Hr.
  pose proof (segs_Forall (fun x => lt k (fst x)) cur b Hb) as [Hgb0 Hgb]. rewrite Eb in Hgb0, Hgb. cbn [fst snd] in Hgb0, Hgb.
  pose proof (segs_Forall (fun x => lt (fst x) k) cur a Ha) as [Hla0 Hla]. rewrite Ea in Hla0, Hla. cbn [fst snd] in Hla0, Hla.
  assert (Hh : hits _ _ cmp k rs = false).
  { eapply hits_false_gt; [exact Hr|]. eapply Forall_impl; [|exact Hgb]. intros p [Hp _]. exact Hp. }
  rewrite Hh. destruct (Nat.eqb cur target) eqn:Ect; [apply oks_ret; reflexivity|].
  apply Nat.eqb_neq in Ect.
  set (la := last_seg K V s0a psa) in *.
  assert (Hla' : all_lt la k) by (apply last_seg_Forall; assumption).
  assert (Hchild : erase_l (last_link _ _ (n_l0 _ _ n) les) = subl cur (la ++ s0b)).
  { rewrite last_link_erase, H0, Hl, last_link_mk_es.
    pose proof (last_seg_set K V s0a psa (la ++ s0b)) as Q. rewrite Es in Q. rewrite Q. reflexivity. }
  destruct cur as [|cur']; [lia|]. cbn [Build.subl] in Hchild.
  destruct (la ++ s0b) as [|x r] eqn:E.
  - rewrite build_nil in Hchild. apply erase_l_nil in Hchild. rewrite Hchild. apply oks_ret. reflexivity.
  - destruct (load_build cur' _ _ Hchild ltac:(discriminate)) as [Lc Nc].
    replace (S cur' - 1) with cur' by lia.
    destruct (last_link _ _ (n_l0 _ _ n) les) as [|c0|h0 c0|h0]; [contradiction|..];
      (apply (oks_bind _ _ _ _ Lc); intros c Hc; cbn beta in Hc; rewrite <- E in Hc;
       apply (IH cur') with (a := la) (b := s0b); [lia|lia|lia|exact Hc|exact Hla'|exact Hgb0]).
Qed.

Lemma head_entry (sub : seg -> link) (rs : list entry) k v0 s (ps : list pseg) :
  map erase_e rs = mk_es sub ((k, v0, s) :: ps) ->
  exists e rs', rs = e :: rs' /\ ekey _ _ e = k /\ eval _ _ e = v0 /\ erase_l (elink _ _ e) = sub s /\
                map erase_e rs' = mk_es sub ps /\ hits _ _ cmp k rs = true.
Proof.
  destruct rs as [|[[k' v'] l'] rs']; [discriminate|]. intros H.
  unfold Build.mk_es in H. cbn [map] in H. unfold Erase.erase_e at 1 in H. cbn [ekey eval elink pkey pval pseg_of fst snd] in H.
  injection H as Hk Hv Hl Hr. subst k' v'.
  exists (k, v0, l'), rs'. repeat split; try reflexivity; try assumption.
  unfold hits. cbn [ekey fst]. apply keq_true. reflexivity.
Qed.

Lemma get_present : forall cur fuel n a b k v0 target,
  cur < fuel -> target = Nat.min (layer k) cur ->
  erase_n n = bnode cur (a ++ (k, v0) :: b) -> all_lt a k -> all_gt b k ->
  oks (get_node _ _ cmp fuel cur target k n) (fun r => r = Some v0).
Proof.
  induction cur as [cur IH] using lt_wf_ind; intros fuel n a b k v0 target Hf Ht He Ha Hb.
  destruct fuel as [|f]; [lia|]. cbn [get_node]. apply oks_tick.
  destruct (segs cur a) as [s0a psa] eqn:Ea. destruct (segs cur ((k, v0) :: b)) as [s0b psb] eqn:Eb.
  destruct (set_last_seg K V s0a psa (last_seg K V s0a psa ++ s0b)) as [s0' psa'] eqn:Es.
  destruct (cut_node _ _ _ _ _ _ _ _ _ _ _ He Ha (all_ge_present _ _ v0 Hb) Ea Eb Es) as (H0 & Hl & Hr).
  destruct (span_lt _ _ cmp k (n_es _ _ n)) as [les rs]. cbn [fst snd] in Hl, Hr.
  pose proof (segs_Forall (fun x => lt (fst x) k) cur a Ha) as [Hla0 Hla]. rewrite Ea in Hla0, Hla. cbn [fst snd] in Hla0, Hla.
  destruct (Nat.leb cur (layer k)) eqn:Epiv.
  - (* k is a pivot of this node *)
    apply Nat.leb_le in Epiv. rewrite segs_head_pivot in Eb by exact Epiv. inversion Eb; subst s0b psb.
    destruct (head_entry _ _ _ _ _ _ Hr) as (e & rs' & -> & Hk & Hv & _ & _ & Hh).
    rewrite Hh.
    replace (Nat.eqb cur target) with true by (symmetry; apply Nat.eqb_eq; lia).
    apply oks_ret. rewrite Hv. reflexivity.
  - apply Nat.leb_gt in Epiv. rewrite segs_head_nonpivot in Eb by exact Epiv. inversion Eb; subst s0b psb.
    pose proof (segs_Forall (fun x => lt k (fst x)) cur b Hb) as [Hgb0 Hgb].
    assert (Hh : hits _ _ cmp k rs = false).
    { eapply hits_false_gt; [exact Hr|]. eapply Forall_impl; [|exact Hgb]. intros p [Hp _]. exact Hp. }
    rewrite Hh. replace (Nat.eqb cur target) with false by (symmetry; apply Nat.eqb_neq; lia).
    set (la := last_seg K V s0a psa) in *.
    assert (Hla' : all_lt la k) by (apply last_seg_Forall; assumption).
    assert (Hchild : erase_l (last_link _ _ (n_l0 _ _ n) les) = subl cur (la ++ (k, v0) :: fst (segs cur b))).
    { rewrite last_link_erase, H0, Hl, last_link_mk_es.
      pose proof (last_seg_set K V s0a psa (la ++ (k, v0) :: fst (segs cur b))) as Q. rewrite Es in Q. rewrite Q. reflexivity. }
    destruct cur as [|cur']; [lia|]. cbn [Build.subl] in Hchild.
    destruct (load_build cur' _ _ Hchild ltac:(destruct la; discriminate)) as [Lc Nc].
    replace (S cur' - 1) with cur' by lia.
    destruct (last_link _ _ (n_l0 _ _ n) les) as [|c0|h0 c0|h0]; [contradiction|..];
      (apply (oks_bind _ _ _ _ Lc); intros c Hc; cbn beta in Hc;
       apply (IH cur') with (a := la) (b := fst (segs (S cur') b)); [lia|lia|lia|exact Hc|exact Hla'|exact Hgb0]).
Qed.

(** * Insert below the root *)
Lemma erase_fresh d : erase_n (fresh_node K V) = bnode d [].
Proof. rewrite bnode_eq. cbn [Build.segs fst snd Build.mk_es map]. rewrite subl_nil. reflexivity. Qed.

(* the node reached by descending: the child for the run s (a fresh node for an empty run) *)
Lemma descend_child cur' (child : link) (s : seg) :
  erase_l child = build cur' s ->
  oks (match child with LNil => ret (fresh_node K V) | _ => load _ _ child end) (fun c => erase_n c = bnode cur' s).
Proof.
  intros Hc. destruct s as [|x r].
  - rewrite build_nil in Hc. apply erase_l_nil in Hc. subst child. apply oks_ret. apply erase_fresh.
  - destruct (load_build cur' _ _ Hc ltac:(discriminate)) as [Lc Nc].
    destruct child; [contradiction|exact Lc..].
Qed.

Lemma split_subl d f k (c : link) (la sb : seg) :
  d <= f -> erase_l c = subl d (la ++ sb) -> all_lt la k -> all_gt sb k ->
  oks (on_link _ _ c (LNil, LNil) (split _ _ cmp f k))
      (fun r => erase_l (fst r) = subl d la /\ erase_l (snd r) = subl d sb).
Proof.
  intros Hf. apply split_child. intros d' -> n a b Hn Ha Hb. apply split_spec; [lia|assumption..].
Qed.

Definition ins_absent_post (cur : nat) (l' : seg) (r : ins_res K V) : Prop :=
  match r with IIns n' => erase_n n' = bnode cur l' | _ => False end.

Lemma ins_absent : forall cur fuel n a b k v target,
  cur < fuel -> target = Nat.min (layer k) cur ->
  erase_n n = bnode cur (a ++ b) -> all_lt a k -> all_gt b k ->
  oks (ins _ _ cmp veq fuel cur target k v n) (ins_absent_post cur (a ++ (k, v) :: b)).
Proof.
  induction cur as [cur IH] using lt_wf_ind; intros fuel n a b k v target Hf Ht He Ha Hb.
  destruct fuel as [|f]; [lia|]. cbn [ins]. apply oks_tick.
  destruct (segs cur a) as [s0a psa] eqn:Ea. destruct (segs cur b) as [s0b psb] eqn:Eb.
  destruct (set_last_seg K V s0a psa (last_seg K V s0a psa ++ s0b)) as [s0' psa'] eqn:Es.
  destruct (cut_node _ _ _ _ _ _ _ _ _ _ _ He Ha (all_gt_ge _ _ Hb) Ea Eb Es) as (H0 & Hl & Hr).
  destruct (span_lt _ _ cmp k (n_es _ _ n)) as [les rs]. cbn [fst snd] in Hl, Hr.
  pose proof (segs_Forall (fun x => lt k (fst x)) cur b Hb) as [Hgb0 Hgb]. rewrite Eb in Hgb0, Hgb. cbn [fst snd] in Hgb0, Hgb.
  pose proof (segs_Forall (fun x => lt (fst x) k) cur a Ha) as [Hla0 Hla]. rewrite Ea in Hla0, Hla. cbn [fst snd] in Hla0, Hla.
  assert (Hh : hits _ _ cmp k rs = false).
  { eapply hits_false_gt; [exact Hr|]. eapply Forall_impl; [|exact Hgb]. intros p [Hp _]. exact Hp. }
  rewrite Hh.
  set (la := last_seg K V s0a psa) in *.
  assert (Hla' : all_lt la k) by (apply last_seg_Forall; assumption).
  assert (Hchild : erase_l (last_link _ _ (n_l0 _ _ n) les) = subl cur (la ++ s0b)).
  { rewrite last_link_erase, H0, Hl, last_link_mk_es.
    pose proof (last_seg_set K V s0a psa (la ++ s0b)) as Q. rewrite Es in Q. rewrite Q. reflexivity. }
  destruct (Nat.eqb cur target) eqn:Ect.
  - (* the key's own layer: split the child, insert here *)
    apply Nat.eqb_eq in Ect.
    eapply oks_bind; [exact (split_subl cur f k _ la s0b ltac:(lia) Hchild Hla' Hgb0)|].
    intros [ll rl] [Hll Hrl]. cbn [fst snd] in Hll, Hrl.
    destruct (set_last_link _ _ (n_l0 _ _ n) les ll) as [l0' les'] eqn:Esl.
    apply oks_ret. unfold ins_absent_post. rewrite erase_mk_dirty, map_app. cbn [map].
    apply set_last_link_erase' in Esl. rewrite H0, Hl, Hll, set_last_link_mk_es in Esl.
    pose proof (set_last_seg_twice K V s0a psa (la ++ s0b) la) as Q. rewrite Es in Q.
    unfold la in Q at 2. rewrite set_last_seg_id in Q. rewrite Q in Esl. inversion Esl.
    change (erase_e (k, v, rl)) with (k, v, erase_l rl). rewrite Hrl, Hr.
    change ((k, v, subl cur s0b) :: mk_es (subl cur) psb) with (mk_es (subl cur) ((k, v, s0b) :: psb)).
    rewrite <- mk_es_app.
    symmetry. apply bnode_of_segs. rewrite segs_app, Ea.
    rewrite segs_head_pivot by lia. rewrite Eb. cbn [fst snd]. rewrite app_nil_r.
    fold la. unfold la. rewrite set_last_seg_id. reflexivity.
  - (* above the key's layer: descend *)
    apply Nat.eqb_neq in Ect. destruct cur as [|cur']; [lia|]. cbn [Build.subl] in Hchild.
    eapply oks_bind; [exact (descend_child cur' _ _ Hchild)|]. intros c Hc. cbn beta in Hc.
    replace (S cur' - 1) with cur' by lia.
    eapply oks_bind; [apply (IH cur') with (a := la) (b := s0b); [lia|lia|lia|exact Hc|exact Hla'|exact Hgb0]|].
    intros r Hr'. destruct r as [|c'|c']; try contradiction. unfold ins_absent_post in Hr'.
    apply oks_ret. unfold ins_absent_post.
    destruct (set_last_link _ _ (n_l0 _ _ n) les (link_of _ _ c')) as [l0' les'] eqn:Esl.
    rewrite erase_mk_dirty, map_app.
    apply set_last_link_erase' in Esl. rewrite H0, Hl, link_of_erase, Hr' in Esl.
    change (link_of _ _ (bnode cur' (la ++ (k, v) :: s0b))) with (subl (S cur') (la ++ (k, v) :: s0b)) in Esl.
    rewrite set_last_link_mk_es in Esl.
    pose proof (set_last_seg_twice K V s0a psa (la ++ s0b) (la ++ (k, v) :: s0b)) as Q. rewrite Es in Q.
    rewrite Q in Esl.
    destruct (set_last_seg K V s0a psa (la ++ (k, v) :: s0b)) as [sx psx] eqn:Ex. inversion Esl.
    rewrite Hr, <- mk_es_app. change (build cur' sx) with (subl (S cur') sx).
    symmetry. apply bnode_of_segs. rewrite segs_app, Ea.
    rewrite segs_head_nonpivot by lia. rewrite Eb. cbn [fst snd]. fold la. rewrite Ex. reflexivity.
Qed.

Hypothesis veq_eq : forall x y, veq x y = true <-> x = y.

Definition ins_present_post (cur : nat) (v0 v : V) (l' : seg) (r : ins_res K V) : Prop :=
  match r with
  | INoop => v0 = v
  | IUpd n' => v0 <> v /\ erase_n n' = bnode cur l'
  | IIns _ => False
  end.

Lemma ins_present : forall cur fuel n a b k v0 v target,
  cur < fuel -> target = Nat.min (layer k) cur ->
  erase_n n = bnode cur (a ++ (k, v0) :: b) -> all_lt a k -> all_gt b k ->
  oks (ins _ _ cmp veq fuel cur target k v n) (ins_present_post cur v0 v (a ++ (k, v) :: b)).
Proof.
  induction cur as [cur IH] using lt_wf_ind; intros fuel n a b k v0 v target Hf Ht He Ha Hb.
  destruct fuel as [|f]; [lia|]. cbn [ins]. apply oks_tick.
  destruct (segs cur a) as [s0a psa] eqn:Ea. destruct (segs cur ((k, v0) :: b)) as [s0b psb] eqn:Eb.
  destruct (set_last_seg K V s0a psa (last_seg K V s0a psa ++ s0b)) as [s0' psa'] eqn:Es.
  destruct (cut_node _ _ _ _ _ _ _ _ _ _ _ He Ha (all_ge_present _ _ v0 Hb) Ea Eb Es) as (H0 & Hl & Hr).
  destruct (span_lt _ _ cmp k (n_es _ _ n)) as [les rs]. cbn [fst snd] in Hl, Hr.
  pose proof (segs_Forall (fun x => lt (fst x) k) cur a Ha) as [Hla0 Hla]. rewrite Ea in Hla0, Hla. cbn [fst snd] in Hla0, Hla.
  pose proof (segs_Forall (fun x => lt k (fst x)) cur b Hb) as [Hgb0 Hgb].
  set (la := last_seg K V s0a psa) in *.
  assert (Hla' : all_lt la k) by (apply last_seg_Forall; assumption).
  destruct (Nat.leb cur (layer k)) eqn:Epiv.
  - (* k is a pivot of this node: replace the value *)
    apply Nat.leb_le in Epiv. rewrite segs_head_pivot in Eb by exact Epiv. inversion Eb; subst s0b psb.
    destruct (head_entry _ _ _ _ _ _ Hr) as (e & rs' & -> & Hk & Hv & Hel & Hrs' & Hh).
    rewrite Hh. replace (Nat.eqb cur target) with true by (symmetry; apply Nat.eqb_eq; lia). cbn [negb].
    destruct e as [[k' v'] l']. cbn [ekey eval elink fst snd] in Hk, Hv, Hel. subst k' v'.
    destruct (veq v0 v) eqn:Ev.
    + apply oks_ret. apply veq_eq in Ev. exact Ev.
    + apply oks_ret. split; [intros E; apply veq_eq in E; congruence|].
      rewrite erase_mk_dirty, map_app. cbn [map]. change (erase_e (k, v, l')) with (k, v, erase_l l').
      rewrite H0, Hl, Hel, Hrs'.
      change ((k, v, subl cur (fst (segs cur b))) :: mk_es (subl cur) (snd (segs cur b)))
        with (mk_es (subl cur) ((k, v, fst (segs cur b)) :: snd (segs cur b))).
      rewrite <- mk_es_app. symmetry. apply bnode_of_segs. rewrite segs_app, Ea.
      rewrite segs_head_pivot by lia. fold la. rewrite Es. reflexivity.
  - (* above the key's layer: descend *)
    apply Nat.leb_gt in Epiv. rewrite segs_head_nonpivot in Eb by exact Epiv. inversion Eb; subst s0b psb.
    assert (Hh : hits _ _ cmp k rs = false).
    { eapply hits_false_gt; [exact Hr|]. eapply Forall_impl; [|exact Hgb]. intros p [Hp _]. exact Hp. }
    rewrite Hh. replace (Nat.eqb cur target) with false by (symmetry; apply Nat.eqb_neq; lia).
    assert (Hchild : erase_l (last_link _ _ (n_l0 _ _ n) les) = subl cur (la ++ (k, v0) :: fst (segs cur b))).
    { rewrite last_link_erase, H0, Hl, last_link_mk_es.
      pose proof (last_seg_set K V s0a psa (la ++ (k, v0) :: fst (segs cur b))) as Q. rewrite Es in Q. rewrite Q. reflexivity. }
    destruct cur as [|cur']; [lia|]. cbn [Build.subl] in Hchild.
    eapply oks_bind; [exact (descend_child cur' _ _ Hchild)|]. intros c Hc. cbn beta in Hc.
    replace (S cur' - 1) with cur' by lia.
    eapply oks_bind; [apply (IH cur') with (a := la) (b := fst (segs (S cur') b)) (v0 := v0); [lia|lia|lia|exact Hc|exact Hla'|exact Hgb0]|].
    intros r Hr'. destruct r as [|c'|c']; unfold ins_present_post in Hr'; [apply oks_ret; exact Hr'| |contradiction].
    destruct Hr' as [Hne Hc']. apply oks_ret. split; [exact Hne|].
    destruct (set_last_link _ _ (n_l0 _ _ n) les (link_of _ _ c')) as [l0' les'] eqn:Esl.
    rewrite erase_mk_dirty, map_app.
    apply set_last_link_erase' in Esl. rewrite H0, Hl, link_of_erase, Hc' in Esl.
    change (link_of _ _ (bnode cur' (la ++ (k, v) :: fst (segs (S cur') b))))
      with (subl (S cur') (la ++ (k, v) :: fst (segs (S cur') b))) in Esl.
    rewrite set_last_link_mk_es in Esl.
    pose proof (set_last_seg_twice K V s0a psa (la ++ (k, v0) :: fst (segs (S cur') b)) (la ++ (k, v) :: fst (segs (S cur') b))) as Q.
    rewrite Es in Q. rewrite Q in Esl.
    destruct (set_last_seg K V s0a psa (la ++ (k, v) :: fst (segs (S cur') b))) as [sx psx] eqn:Ex. inversion Esl.
    rewrite Hr, <- mk_es_app. change (build cur' sx) with (subl (S cur') sx).
    symmetry. apply bnode_of_segs. rewrite segs_app, Ea.
    rewrite segs_head_nonpivot by lia. cbn [fst snd]. fold la. rewrite Ex. reflexivity.
Qed.

(** * Delete below the root *)
Lemma merge_subl d f (x y : link) (sa sb : seg) :
  d <= f -> erase_l x = subl d sa -> erase_l y = subl d sb ->
  oks (merge _ _ f x y) (fun r => erase_l r = subl d (sa ++ sb)).
Proof.
  intros Hf Hx Hy. destruct d as [|d'].
  - cbn [Build.subl] in *. apply erase_l_nil in Hx. apply erase_l_nil in Hy. subst x y.
    destruct f; cbn [merge]; apply oks_ret; reflexivity.
  - cbn [Build.subl] in *. apply merge_spec; [lia|assumption..].
Qed.

Lemma del_present : forall cur fuel n a b k v0 target,
  cur < fuel -> target = Nat.min (layer k) cur ->
  erase_n n = bnode cur (a ++ (k, v0) :: b) -> all_lt a k -> all_gt b k ->
  oks (del _ _ cmp veq fuel cur target k v0 n) (fun n' => erase_n n' = bnode cur (a ++ b)).
Proof.
  induction cur as [cur IH] using lt_wf_ind; intros fuel n a b k v0 target Hf Ht He Ha Hb.
  destruct fuel as [|f]; [lia|]. cbn [del]. apply oks_tick.
  destruct (segs cur a) as [s0a psa] eqn:Ea. destruct (segs cur ((k, v0) :: b)) as [s0b psb] eqn:Eb.
  destruct (set_last_seg K V s0a psa (last_seg K V s0a psa ++ s0b)) as [s0' psa'] eqn:Es.
  destruct (cut_node _ _ _ _ _ _ _ _ _ _ _ He Ha (all_ge_present _ _ v0 Hb) Ea Eb Es) as (H0 & Hl & Hr).
  destruct (span_lt _ _ cmp k (n_es _ _ n)) as [les rs]. cbn [fst snd] in Hl, Hr.
  pose proof (segs_Forall (fun x => lt (fst x) k) cur a Ha) as [Hla0 Hla]. rewrite Ea in Hla0, Hla. cbn [fst snd] in Hla0, Hla.
  pose proof (segs_Forall (fun x => lt k (fst x)) cur b Hb) as [Hgb0 Hgb].
  set (la := last_seg K V s0a psa) in *.
  assert (Hla' : all_lt la k) by (apply last_seg_Forall; assumption).
  destruct (Nat.leb cur (layer k)) eqn:Epiv.
  - (* k is a pivot of this node: merge its two neighbours *)
    apply Nat.leb_le in Epiv. rewrite segs_head_pivot in Eb by exact Epiv. inversion Eb; subst s0b psb.
    destruct (head_entry _ _ _ _ _ _ Hr) as (e & rs' & -> & Hk & Hv & Hel & Hrs' & Hh).
    rewrite Hh. replace (Nat.eqb cur target) with true by (symmetry; apply Nat.eqb_eq; lia). cbn [negb].
    destruct e as [[k' v'] l']. cbn [ekey eval elink fst snd] in Hk, Hv, Hel. subst k' v'.
    replace (veq v0 v0) with true by (symmetry; apply veq_eq; reflexivity).
    assert (Hll : erase_l (last_link _ _ (n_l0 _ _ n) les) = subl cur la).
    { rewrite last_link_erase, H0, Hl, last_link_mk_es.
      pose proof (last_seg_set K V s0a psa (la ++ [])) as Q. rewrite Es in Q. rewrite Q. apply f_equal. apply app_nil_r. }
    eapply oks_bind; [exact (merge_subl cur f _ _ la (fst (segs cur b)) ltac:(lia) Hll Hel)|].
    intros m Hm. cbn beta in Hm.
    destruct (set_last_link _ _ (n_l0 _ _ n) les m) as [l0' les'] eqn:Esl.
    apply oks_ret. rewrite erase_mk_dirty, map_app.
    apply set_last_link_erase' in Esl. rewrite H0, Hl, Hm, set_last_link_mk_es in Esl.
    pose proof (set_last_seg_twice K V s0a psa (la ++ []) (la ++ fst (segs cur b))) as Q. rewrite Es in Q. rewrite Q in Esl.
    destruct (set_last_seg K V s0a psa (la ++ fst (segs cur b))) as [sx psx] eqn:Ex. inversion Esl.
    rewrite Hrs', <- mk_es_app. symmetry. apply bnode_of_segs. rewrite segs_app, Ea.
    destruct (segs cur b) as [sb0 psb0]. cbn [fst snd] in *. fold la. rewrite Ex. reflexivity.
  - (* above the key's layer: descend *)
    apply Nat.leb_gt in Epiv. rewrite segs_head_nonpivot in Eb by exact Epiv. inversion Eb; subst s0b psb.
    assert (Hh : hits _ _ cmp k rs = false).
    { eapply hits_false_gt; [exact Hr|]. eapply Forall_impl; [|exact Hgb]. intros p [Hp _]. exact Hp. }
    rewrite Hh. replace (Nat.eqb cur target) with false by (symmetry; apply Nat.eqb_neq; lia).
    assert (Hchild : erase_l (last_link _ _ (n_l0 _ _ n) les) = subl cur (la ++ (k, v0) :: fst (segs cur b))).
    { rewrite last_link_erase, H0, Hl, last_link_mk_es.
      pose proof (last_seg_set K V s0a psa (la ++ (k, v0) :: fst (segs cur b))) as Q. rewrite Es in Q. rewrite Q. reflexivity. }
    destruct cur as [|cur']; [lia|]. cbn [Build.subl] in Hchild.
    destruct (load_build cur' _ _ Hchild ltac:(destruct la; discriminate)) as [Lc Nc].
    replace (S cur' - 1) with cur' by lia.
    assert (Hrest : forall c, erase_n c = bnode cur' (la ++ (k, v0) :: fst (segs (S cur') b)) ->
      oks (let* c'0 := del K V cmp veq f cur' target k v0 c in
           (let (l0', les') := set_last_link K V (n_l0 K V n) les (link_of K V c'0) in
            ret (mk_dirty K V l0' (les' ++ rs))))
          (fun n' => erase_n n' = bnode (S cur') (a ++ b))).
    { intros c Hc.
      eapply oks_bind; [apply (IH cur') with (a := la) (b := fst (segs (S cur') b)); [lia|lia|lia|exact Hc|exact Hla'|exact Hgb0]|].
      intros c' Hc'. cbn beta in Hc'.
      destruct (set_last_link _ _ (n_l0 _ _ n) les (link_of _ _ c')) as [l0' les'] eqn:Esl.
      apply oks_ret. rewrite erase_mk_dirty, map_app.
      apply set_last_link_erase' in Esl. rewrite H0, Hl, link_of_erase, Hc' in Esl.
      change (link_of _ _ (bnode cur' (la ++ fst (segs (S cur') b)))) with (subl (S cur') (la ++ fst (segs (S cur') b))) in Esl.
      rewrite set_last_link_mk_es in Esl.
      pose proof (set_last_seg_twice K V s0a psa (la ++ (k, v0) :: fst (segs (S cur') b)) (la ++ fst (segs (S cur') b))) as Q.
      rewrite Es in Q. rewrite Q in Esl.
      destruct (set_last_seg K V s0a psa (la ++ fst (segs (S cur') b))) as [sx psx] eqn:Ex. inversion Esl.
      rewrite Hr, <- mk_es_app. change (build cur' sx) with (subl (S cur') sx).
      symmetry. apply bnode_of_segs. rewrite segs_app, Ea.
      destruct (segs (S cur') b) as [sb0 psb0]. cbn [fst snd] in *. fold la. rewrite Ex. reflexivity. }
    destruct (last_link _ _ (n_l0 _ _ n) les) as [|c0|h0 c0|h0]; [contradiction|..];
      (apply (oks_bind _ _ _ _ Lc); intros c Hc; cbn beta in Hc; apply Hrest; exact Hc).
Qed.

(** failing calls: a delete of an absent key, or with a non-matching value, returns an error *)
Definition fails {A} (m : M A) : Prop := exists t, m = (t, Err).

Lemma fails_bind_r {A B} (m : M A) (f : A -> M B) (P : A -> Prop) :
  oks m P -> (forall a, P a -> fails (f a)) -> fails (bind m f).
Proof.
  intros (t & a & E & Pa) H. destruct (H a Pa) as (t' & E'). exists (t ++ t'). unfold bind. rewrite E, E'. reflexivity.
Qed.
Lemma fails_tick {B} e (k : M B) : fails k -> fails (bind (tick e) (fun _ => k)).
Proof. intros H. apply (fails_bind_r (tick e) (fun _ => k) (fun _ => True)); [exists [e], tt; split; [reflexivity|exact I]|intros; exact H]. Qed.
Lemma fails_bind_l {A B} (m : M A) (f : A -> M B) : fails m -> fails (bind m f).
Proof. intros (t & E). exists t. unfold bind. rewrite E. reflexivity. Qed.
Lemma fails_fail {A} : fails (@fail A).
Proof. exists []. reflexivity. Qed.

Lemma del_absent : forall cur fuel n a b k v target,
  cur < fuel -> target = Nat.min (layer k) cur ->
  erase_n n = bnode cur (a ++ b) -> all_lt a k -> all_gt b k ->
  fails (del _ _ cmp veq fuel cur target k v n).
Proof.
  induction cur as [cur IH] using lt_wf_ind; intros fuel n a b k v target Hf Ht He Ha Hb.
  destruct fuel as [|f]; [lia|]. cbn [del]. apply fails_tick.
  destruct (segs cur a) as [s0a psa] eqn:Ea. destruct (segs cur b) as [s0b psb] eqn:Eb.
  destruct (set_last_seg K V s0a psa (last_seg K V s0a psa ++ s0b)) as [s0' psa'] eqn:Es.
  destruct (cut_node _ _ _ _ _ _ _ _ _ _ _ He Ha (all_gt_ge _ _ Hb) Ea Eb Es) as (H0 & Hl & Hr).
  destruct (span_lt _ _ cmp k (n_es _ _ n)) as [les rs]. cbn [fst snd] in Hl, Hr.
  pose proof (segs_Forall (fun x => lt k (fst x)) cur b Hb) as [Hgb0 Hgb]. rewrite Eb in Hgb0, Hgb. cbn [fst snd] in Hgb0, Hgb.
  pose proof (segs_Forall (fun x => lt (fst x) k) cur a Ha) as [Hla0 Hla]. rewrite Ea in Hla0, Hla. cbn [fst snd] in Hla0, Hla.
  assert (Hh : hits _ _ cmp k rs = false).
  { eapply hits_false_gt; [exact Hr|]. eapply Forall_impl; [|exact Hgb]. intros p [Hp _]. exact Hp. }
  rewrite Hh. destruct (Nat.eqb cur target) eqn:Ect; [apply fails_fail|].
  apply Nat.eqb_neq in Ect.
  set (la := last_seg K V s0a psa) in *.
  assert (Hla' : all_lt la k) by (apply last_seg_Forall; assumption).
  assert (Hchild : erase_l (last_link _ _ (n_l0 _ _ n) les) = subl cur (la ++ s0b)).
  { rewrite last_link_erase, H0, Hl, last_link_mk_es.
    pose proof (last_seg_set K V s0a psa (la ++ s0b)) as Q. rewrite Es in Q. rewrite Q. reflexivity. }
  destruct cur as [|cur']; [lia|]. cbn [Build.subl] in Hchild.
  destruct (la ++ s0b) as [|x r] eqn:E.
  - rewrite build_nil in Hchild. apply erase_l_nil in Hchild. rewrite Hchild. apply fails_fail.
  - destruct (load_build cur' _ _ Hchild ltac:(discriminate)) as [Lc Nc].
    replace (S cur' - 1) with cur' by lia.
    destruct (last_link _ _ (n_l0 _ _ n) les) as [|c0|h0 c0|h0]; [contradiction|..];
      (apply (fails_bind_r _ _ _ Lc); intros c Hc; cbn beta in Hc; rewrite <- E in Hc;
       apply fails_bind_l;
       apply (IH cur') with (a := la) (b := s0b); [lia|lia|lia|exact Hc|exact Hla'|exact Hgb0]).
Qed.

Lemma del_wrong_value : forall cur fuel n a b k v0 v target,
  cur < fuel -> target = Nat.min (layer k) cur -> v0 <> v ->
  erase_n n = bnode cur (a ++ (k, v0) :: b) -> all_lt a k -> all_gt b k ->
  fails (del _ _ cmp veq fuel cur target k v n).
Proof.
  induction cur as [cur IH] using lt_wf_ind; intros fuel n a b k v0 v target Hf Ht Hne He Ha Hb.
  destruct fuel as [|f]; [lia|]. cbn [del]. apply fails_tick.
  destruct (segs cur a) as [s0a psa] eqn:Ea. destruct (segs cur ((k, v0) :: b)) as [s0b psb] eqn:Eb.
  destruct (set_last_seg K V s0a psa (last_seg K V s0a psa ++ s0b)) as [s0' psa'] eqn:Es.
  destruct (cut_node _ _ _ _ _ _ _ _ _ _ _ He Ha (all_ge_present _ _ v0 Hb) Ea Eb Es) as (H0 & Hl & Hr).
  destruct (span_lt _ _ cmp k (n_es _ _ n)) as [les rs]. cbn [fst snd] in Hl, Hr.
  pose proof (segs_Forall (fun x => lt (fst x) k) cur a Ha) as [Hla0 Hla]. rewrite Ea in Hla0, Hla. cbn [fst snd] in Hla0, Hla.
  pose proof (segs_Forall (fun x => lt k (fst x)) cur b Hb) as [Hgb0 Hgb].
  set (la := last_seg K V s0a psa) in *.
  assert (Hla' : all_lt la k) by (apply last_seg_Forall; assumption).
  destruct (Nat.leb cur (layer k)) eqn:Epiv.
  - apply Nat.leb_le in Epiv. rewrite segs_head_pivot in Eb by exact Epiv. inversion Eb; subst s0b psb.
    destruct (head_entry _ _ _ _ _ _ Hr) as (e & rs' & -> & Hk & Hv & Hel & Hrs' & Hh).
    rewrite Hh. replace (Nat.eqb cur target) with true by (symmetry; apply Nat.eqb_eq; lia). cbn [negb].
    destruct e as [[k' v'] l']. cbn [ekey eval elink fst snd] in Hk, Hv, Hel. subst k' v'.
    destruct (veq v0 v) eqn:Ev; [apply veq_eq in Ev; contradiction|apply fails_fail].
  - apply Nat.leb_gt in Epiv. rewrite segs_head_nonpivot in Eb by exact Epiv. inversion Eb; subst s0b psb.
    assert (Hh : hits _ _ cmp k rs = false).
    { eapply hits_false_gt; [exact Hr|]. eapply Forall_impl; [|exact Hgb]. intros p [Hp _]. exact Hp. }
    rewrite Hh. replace (Nat.eqb cur target) with false by (symmetry; apply Nat.eqb_neq; lia).
    assert (Hchild : erase_l (last_link _ _ (n_l0 _ _ n) les) = subl cur (la ++ (k, v0) :: fst (segs cur b))).
    { rewrite last_link_erase, H0, Hl, last_link_mk_es.
      pose proof (last_seg_set K V s0a psa (la ++ (k, v0) :: fst (segs cur b))) as Q. rewrite Es in Q. rewrite Q. reflexivity. }
    destruct cur as [|cur']; [lia|]. cbn [Build.subl] in Hchild.
    destruct (load_build cur' _ _ Hchild ltac:(destruct la; discriminate)) as [Lc Nc].
    replace (S cur' - 1) with cur' by lia.
    destruct (last_link _ _ (n_l0 _ _ n) les) as [|c0|h0 c0|h0]; [contradiction|..];
      (apply (fails_bind_r _ _ _ Lc); intros c Hc; cbn beta in Hc; apply fails_bind_l;
       apply (IH cur') with (a := la) (b := fst (segs (S cur') b)) (v0 := v0); [lia|lia|lia|exact Hne|exact Hc|exact Hla'|exact Hgb0]).
Qed.

End CANON.
