(** C07 for canonical trees: the side conditions of DiffOnce.diff_once (every stored node has a
    first key within the fuel; the names a tree reaches are pairwise distinct) hold for every
    canonical tree whose hash links are consistently named.  Lemma file. *)
From Coq Require Import List NArith ZArith Lia Bool Arith Sorted.
From Mast Require Import Prim Tree KeyOrder Diff Erase Build Spec Canon Links Level Inv DiffSpec DiffLinks DiffOnce.
Import ListNotations.

Section DIFFCANON.
Variables K V : Type.
Variable cmp : K -> K -> comparison.
Variable layer : K -> nat.
Hypothesis cmp_eq : forall a b, cmp a b = Eq <-> a = b.
Hypothesis cmp_antisym : forall a b, cmp b a = CompOpp (cmp a b).
Hypothesis cmp_trans : forall a b c, cmp a b = Lt -> cmp b c = Lt -> cmp a c = Lt.
Notation node := (node K V).
Notation link := (link K V).
Notation entry := (entry K V).
Notation bnode := (bnode K V layer).
Notation build := (build K V layer).
Notation subl := (subl K V layer).
Notation segs := (segs K V layer).
Notation erase_n := (erase_n K V).
Notation erase_l := (erase_l K V).

Variable P : name -> node -> Prop.
Hypothesis hered : forall h c, P h c -> allh K V P c.

(** * a node of the reference tree of a non-empty list has a first key *)
Lemma segs_no_pivots_all d s : snd (segs d s) = [] -> fst (segs d s) = s.
Proof.
  intros H. pose proof (segs_flat K V layer d s) as F. rewrite H in F. unfold Build.flat in F. cbn [flat_map] in F. rewrite app_nil_r in F. exact F.
Qed.

Lemma fkl_bnode : forall d fuel (l : link) s, d < fuel -> s <> [] -> erase_l l = LPtr (bnode d s) ->
  exists t kh, first_key_layer _ _ layer fuel l = (t, Ok kh).
Proof.
  induction d as [|d IH]; intros fuel l s Hf Hs He; (destruct fuel as [|f]; [lia|]); cbn [first_key_layer].
  all: destruct (load_erase K V l _ He) as (tl & c & El & Ec); rewrite El; cbn [bind].
  all: destruct (node_inv K V layer _ _ _ Ec) as [H0 Hes].
  - (* level 0: every key is a pivot *)
    rewrite segs_0 in Hes. cbn [snd] in Hes. destruct s as [|x s]; [contradiction|]. cbn [map mk_es] in Hes.
    destruct (n_es _ _ c) as [|e r]; [discriminate|]. cbn [bind tick ret]. eexists _, _. reflexivity.
  - destruct (n_es _ _ c) as [|e r] eqn:Ees; [|cbn [bind tick ret]; eexists _, _; reflexivity].
    cbn [map] in Hes. destruct (snd (segs (S d) s)) as [|p ps] eqn:Ep; [|discriminate].
    rewrite (segs_no_pivots_all _ _ Ep) in H0. cbn [Build.subl] in H0. rewrite (build_not_nil K V layer d s Hs) in H0.
    assert (Hf' : d < f) by lia. destruct (IH f (n_l0 _ _ c) s Hf' Hs H0) as (t2 & kh & E2).
    destruct (first_key_layer K V layer f (n_l0 K V c)) as [t3 r3]. inversion E2; subst. eexists _, _. reflexivity.
Qed.

(** * the shape every stored node of a canonical tree has *)
Definition shaped (D : nat) (c : node) : Prop := exists d s, d < D /\ s <> [] /\ erase_n c = bnode d s.
Definition PS (D : nat) (h : name) (c : node) : Prop := P h c /\ shaped D c.

Lemma child_shape d (l : link) s : erase_l l = subl (S d) s ->
  l = LNil \/ exists c, (l = LPtr c \/ exists h, l = LHash h c) /\ s <> [] /\ erase_n c = bnode d s.
Proof.
  cbn [Build.subl]. intros He. destruct s as [|x s].
  - rewrite build_nil in He. left. destruct l; cbn in He; congruence.
  - rewrite (build_not_nil K V layer d (x :: s)) in He by discriminate.
    destruct l as [|c|h c|h]; cbn in He; try discriminate; right; exists c; (split; [|split; [discriminate|congruence]]).
    + left. reflexivity.
    + right. exists h. reflexivity.
Qed.

Lemma mk_es_links (sub : seg K V -> link) : forall (es : list entry) ps, map (erase_e K V) es = mk_es K V sub ps ->
  Forall (fun e : entry => exists s', erase_l (elink _ _ e) = sub s') es.
Proof.
  induction es as [|e r IH]; intros ps H; [constructor|]. destruct ps as [|p ps]; [discriminate|]. cbn [map mk_es] in H.
  injection H as Hk Hv Hl Hr. constructor; [|exact (IH ps Hr)]. exists (pseg_of _ _ p). exact Hl.
Qed.

Lemma allh_shaped : forall d D (n : node) s, d < D -> s <> [] -> erase_n n = bnode d s -> allh K V P n -> allh K V (PS D) n.
Proof.
  induction d as [|d IH]; intros D n s HD Hs He Ha; destruct n as [dd sr l0 es]; inversion Ha as [? ? ? ? H0 Hes Hcl]; subst.
  all: destruct (node_inv K V layer _ _ _ He) as [E0 Ees]; cbn [n_l0 n_es] in E0, Ees.
  - (* level 0: no children *)
    constructor.
    + cbn [Build.subl] in E0. destruct l0; cbn in E0; try discriminate. constructor.
    + pose proof (mk_es_links _ _ _ Ees) as Hl. rewrite Forall_forall in *. intros e Hin. destruct (Hl e Hin) as (s' & El).
      cbn [Build.subl] in El. destruct (elink _ _ e); cbn in El; try discriminate. constructor.
    + intros Hd h Eh. split; [exact (Hcl Hd h Eh)|]. exists 0, s. repeat split; [lia|exact Hs|exact He].
  - assert (Hlk : forall (l : link) s', erase_l l = subl (S d) s' -> allh_l K V P l -> allh_l K V (PS D) l).
    { intros l s' El Hl. destruct (child_shape d l s' El) as [->|(c & Hc & Hs' & Ec)]; [constructor|].
      destruct Hc as [->|(h & ->)]; inversion Hl; subst.
      - constructor. apply (IH D c s'); [lia|exact Hs'|exact Ec|assumption].
      - constructor. split; [assumption|]. exists d, s'. repeat split; [lia|exact Hs'|exact Ec]. }
    constructor.
    + exact (Hlk l0 _ E0 H0).
    + pose proof (mk_es_links _ _ _ Ees) as Hl. rewrite Forall_forall in *. intros e Hin. destruct (Hl e Hin) as (s' & El).
      exact (Hlk _ _ El (Hes e Hin)).
    + intros Hd h Eh. split; [exact (Hcl Hd h Eh)|]. exists (S d), s. repeat split; [exact HD|exact Hs|exact He].
Qed.

Lemma PS_hered D h c : PS D h c -> allh K V (PS D) c.
Proof. intros [Hp (d & s & Hd & Hs & He)]. exact (allh_shaped d D c s Hd Hs He (hered h c Hp)). Qed.

Lemma PS_keyed D fuel h c : D <= fuel -> PS D h c -> exists t kh, first_key_layer _ _ layer fuel (LHash h c) = (t, Ok kh).
Proof.
  intros Hf [_ (d & s & Hd & Hs & He)]. apply (fkl_bnode d fuel (LHash h c) s); [lia|exact Hs|]. cbn. rewrite He. reflexivity.
Qed.

(** * the names a canonical tree reaches are pairwise distinct *)
Hypothesis Pfun : forall h a b, P h a -> P h b -> a = b.
Variable D : nat.
Notation Q := (PS D).
Notation names_n := (names_n K V).
Notation names_l := (names_l K V).
Notation sz_n := (sz_n K V).
Notation sz_l := (sz_l K V).
Notation to_list_n := (to_list_n K V).
Notation to_list := (to_list K V).

Definition nodupk (l : list (K * V)) : Prop := NoDup (map fst l).

Lemma sorted_nodupk l : ssorted K V cmp l -> nodupk l.
Proof.
  unfold nodupk. induction 1 as [|[k v] l Hs IH Hall]; [constructor|]. cbn [map fst]. constructor; [|exact IH].
  intros Hin. apply in_map_iff in Hin. destruct Hin as ([k' v'] & Hk & Hin). cbn [fst] in Hk. subst k'.
  rewrite Forall_forall in Hall. specialize (Hall _ Hin). cbn [fst] in Hall. unfold slt in Hall.
  assert (E : cmp k k = Eq) by (apply cmp_eq; reflexivity). congruence.
Qed.

Lemma nodupk_app_disj (a b x : list (K * V)) : nodupk (a ++ b) -> x <> [] -> incl x a -> incl x b -> False.
Proof.
  intros H Hx Ha Hb. destruct x as [|[k v] x]; [contradiction|].
  unfold nodupk in H. rewrite map_app in H.
  apply (nodup_app_disj _ _ k H); apply in_map_iff; exists (k, v); (split; [reflexivity|]); [apply Ha|apply Hb]; left; reflexivity.
Qed.
Lemma nodupk_app_l a b : nodupk (a ++ b) -> nodupk a.
Proof. unfold nodupk. rewrite map_app. apply nodup_app_l. Qed.
Lemma nodupk_app_r a b : nodupk (a ++ b) -> nodupk b.
Proof. unfold nodupk. rewrite map_app. apply nodup_app_r. Qed.
Lemma nodupk_tail x a : nodupk (x :: a) -> nodupk a.
Proof. unfold nodupk. cbn [map]. intros H. inversion H; assumption. Qed.

(* a stored node of the tree: its name, a non-empty listing, inside the listing of where it hangs *)
Definition witness (x : name) (lst : list (K * V)) (bound : nat) : Prop :=
  exists c, P x c /\ to_list_n c <> [] /\ incl (to_list_n c) lst /\ sz_n c < bound.

Lemma shaped_list c : shaped D c -> to_list_n c <> [].
Proof. intros (d & s & _ & Hs & He). rewrite (canon_list K V layer _ _ _ He). exact Hs. Qed.

Lemma witness_mono x l1 l2 b1 b2 : witness x l1 b1 -> incl l1 l2 -> b1 <= b2 -> witness x l2 b2.
Proof. intros (c & Hp & Hn & Hi & Hs) Hl Hb. exists c. repeat split; try assumption; [intros y Hy; apply Hl, Hi, Hy|lia]. Qed.

Definition WN (n : node) : Prop := allh K V Q n -> forall x, In x (names_n n) -> witness x (to_list_n n) (sz_n n).
Definition WL (l : link) : Prop := allh_l K V Q l -> forall x, In x (names_l l) -> witness x (to_list l) (sz_l l).

Lemma wl_of (l : link) : PL K V WN l -> WL l.
Proof.
  intros Hp Hl x Hx. destruct l as [|c|h c|h]; cbn [names_l] in Hx; try contradiction.
  - inversion Hl; subst. cbn [PL] in Hp. eapply witness_mono; [exact (Hp ltac:(assumption) x Hx)|apply incl_refl|cbn; lia].
  - inversion Hl as [| |? ? Hq]; subst. destruct Hx as [<-|Hx].
    + destruct Hq as [Hp' Hsh]. exists c. repeat split; [exact Hp'|exact (shaped_list c Hsh)|apply incl_refl|cbn; lia].
    + cbn [PL] in Hp. eapply witness_mono; [exact (Hp (PS_hered D h c Hq) x Hx)|apply incl_refl|cbn; lia].
  - inversion Hl.
Qed.

Lemma witness_all : forall n, WN n.
Proof.
  induction n as [d s l0 es H0 Hes] using node_ind'. intros Ha x Hx.
  inversion Ha as [? ? ? ? A0 Aes _]; subst. rewrite names_n_eq in Hx. rewrite to_list_n_eq, (sz_n_eq K V).
  apply in_app_or in Hx. destruct Hx as [Hx|Hx].
  - eapply witness_mono; [exact (wl_of l0 H0 A0 x Hx)|apply incl_appl, incl_refl|lia].
  - apply in_flat_map in Hx. destruct Hx as (e & He & Hx). rewrite Forall_forall in Hes, Aes.
    eapply witness_mono; [exact (wl_of _ (Hes e He) (Aes e He) x Hx)| |].
    + intros y Hy. apply in_or_app. right. apply in_flat_map. exists e. split; [exact He|right; exact Hy].
    + assert (Hle : S (sz_l (elink _ _ e)) <= list_sum (map (fun e0 : entry => S (sz_l (elink _ _ e0))) es)).
      { clear -He. induction es as [|e0 r IH]; [contradiction|]. cbn [map]. unfold list_sum in *. cbn [fold_right].
        destruct He as [->|He]; [lia|specialize (IH He); lia]. }
      lia.
Qed.

Lemma witness_l (l : link) : allh_l K V Q l -> forall x, In x (names_l l) -> witness x (to_list l) (sz_l l).
Proof.
  apply wl_of. destruct l as [|c|h c|h]; cbn [PL]; try exact I; apply witness_all.
Qed.

(* two witnesses of one name are the same node *)
Lemma witness_disj x (a b : list (K * V)) ba bb : nodupk (a ++ b) -> witness x a ba -> witness x b bb -> False.
Proof.
  intros Hn (c & Hp & Hne & Hi & _) (c' & Hp' & _ & Hi' & _). rewrite (Pfun x c' c Hp' Hp) in Hi'.
  exact (nodupk_app_disj a b (to_list_n c) Hn Hne Hi Hi').
Qed.

Definition DN (n : node) : Prop := allh K V Q n -> nodupk (to_list_n n) -> NoDup (names_n n).

Lemma dl_of (l : link) : PL K V DN l -> allh_l K V Q l -> nodupk (to_list l) -> NoDup (names_l l).
Proof.
  intros Hp Hl Hn. destruct l as [|c|h c|h]; cbn [names_l to_list] in *; try (constructor; fail).
  - inversion Hl; subst. apply Hp; assumption.
  - inversion Hl as [| |? ? Hq]; subst. constructor; [|exact (Hp (PS_hered D h c Hq) Hn)].
    intros Hin. destruct (witness_all c (PS_hered D h c Hq) h Hin) as (c2 & Hp2 & _ & _ & Hsz).
    rewrite (Pfun h c2 c Hp2 (proj1 Hq)) in Hsz. lia.
  - inversion Hl.
Qed.

Lemma names_nodup : forall n, DN n.
Proof.
  induction n as [d s l0 es H0 Hes] using node_ind'. intros Ha Hn.
  inversion Ha as [? ? ? ? A0 Aes _]; subst. rewrite names_n_eq. rewrite to_list_n_eq in Hn.
  assert (Hrest : forall (es' : list entry), Forall (fun e : entry => PL K V DN (elink _ _ e)) es' ->
             Forall (fun e : entry => allh_l K V Q (elink _ _ e)) es' ->
             nodupk (flat_map (fun e : entry => (ekey _ _ e, eval _ _ e) :: to_list (elink _ _ e)) es') ->
             NoDup (flat_map (fun e : entry => names_l (elink _ _ e)) es') /\
             forall x, In x (flat_map (fun e : entry => names_l (elink _ _ e)) es') ->
                       witness x (flat_map (fun e : entry => (ekey _ _ e, eval _ _ e) :: to_list (elink _ _ e)) es') 0 \/ True).
  { induction es' as [|e r IH]; intros Hp Hq Hk; [split; [constructor|intros x []]|].
    inversion Hp as [|? ? Hpe Hpr]; subst. inversion Hq as [|? ? Hqe Hqr]; subst. cbn [flat_map] in *.
    assert (Hk' := nodupk_tail _ _ Hk).
    destruct (IH Hpr Hqr (nodupk_app_r _ _ Hk')) as [Nr _]. split; [|intros; right; exact I].
    assert (Ne : NoDup (names_l (elink _ _ e))) by exact (dl_of _ Hpe Hqe (nodupk_app_l _ _ Hk')).
    clear IH. revert Ne. generalize (names_l (elink _ _ e)) (witness_l _ Hqe). intros N Wn Ne.
    induction N as [|x N IHN]; [exact Nr|]. cbn [app]. inversion Ne as [|? ? Hx Ne']; subst. constructor.
    - intros Hin. apply in_app_or in Hin. destruct Hin as [Hin|Hin]; [exact (Hx Hin)|].
      apply in_flat_map in Hin. destruct Hin as (e' & He' & Hx').
      rewrite Forall_forall in Hqr.
      pose proof (Wn x (or_introl eq_refl)) as W1. pose proof (witness_l _ (Hqr e' He') x Hx') as W2.
      assert (W2' : witness x (flat_map (fun e0 : entry => (ekey _ _ e0, eval _ _ e0) :: to_list (elink _ _ e0)) r) (sz_l (elink _ _ e'))).
      { eapply witness_mono; [exact W2| |apply Nat.le_refl]. intros y Hy. apply in_flat_map. exists e'. split; [exact He'|right; exact Hy]. }
      exact (witness_disj x _ _ _ _ Hk' W1 W2').
    - apply IHN; [intros y Hy; apply Wn; right; exact Hy|exact Ne']. }
  destruct (Hrest es Hes Aes (nodupk_app_r _ _ Hn)) as [Nes _].
  assert (N0 : NoDup (names_l l0)) by exact (dl_of l0 H0 A0 (nodupk_app_l _ _ Hn)).
  revert N0. generalize (names_l l0) (witness_l l0 A0). intros N Wn N0.
  induction N as [|x N IHN]; [exact Nes|]. cbn [app]. inversion N0 as [|? ? Hx N0']; subst. constructor.
  - intros Hin. apply in_app_or in Hin. destruct Hin as [Hin|Hin]; [exact (Hx Hin)|].
    apply in_flat_map in Hin. destruct Hin as (e' & He' & Hx').
    rewrite Forall_forall in Aes.
    pose proof (Wn x (or_introl eq_refl)) as W1. pose proof (witness_l _ (Aes e' He') x Hx') as W2.
    assert (W2' : witness x (flat_map (fun e0 : entry => (ekey _ _ e0, eval _ _ e0) :: to_list (elink _ _ e0)) es) (sz_l (elink _ _ e'))).
    { eapply witness_mono; [exact W2| |apply Nat.le_refl]. intros y Hy. apply in_flat_map. exists e'. split; [exact He'|right; exact Hy]. }
    exact (witness_disj x _ _ _ _ Hn W1 W2').
  - apply IHN; [intros y Hy; apply Wn; right; exact Hy|exact N0'].
Qed.

Theorem names_l_nodup (l : link) : allh_l K V Q l -> nodupk (to_list l) -> NoDup (names_l l).
Proof. intros Hl Hn. apply dl_of; [|exact Hl|exact Hn]. destruct l as [|c|h c|h]; cbn [PL]; try exact I; apply names_nodup. Qed.

End DIFFCANON.

(** * at most once, for canonical trees *)
Section ONCE_CANON.
Variables K V : Type.
Variable cmp : K -> K -> comparison.
Variable veq : V -> V -> bool.
Variable layer : K -> nat.
Hypothesis cmp_eq : forall a b, cmp a b = Eq <-> a = b.
Hypothesis cmp_antisym : forall a b, cmp b a = CompOpp (cmp a b).
Hypothesis cmp_trans : forall a b c, cmp a b = Lt -> cmp b c = Lt -> cmp a c = Lt.
Hypothesis veq_refl : forall v, veq v v = true.
Variable P : name -> node K V -> Prop.
Hypothesis hered : forall h c, P h c -> allh K V P c.
Hypothesis Pfun : forall h a b, P h a -> P h b -> a = b.

(* an empty tree holds no stored (empty) node: no version written by the repaired code does *)
Definition no_stored_empty (m : mast K V) (l : list (K * V)) : Prop :=
  l = [] -> m_root _ _ m = LNil \/ exists c, m_root _ _ m = LPtr c /\ n_src _ _ c = None.

Lemma canon_root_shaped bf (m : mast K V) l D :
  canon K V cmp layer bf m l -> no_stored_empty m l -> m_height _ _ m < D -> allh_l K V P (m_root _ _ m) ->
  allh_l K V (PS K V layer P D) (m_root _ _ m).
Proof.
  intros C Hne HD Ha. destruct (cn_root _ _ _ _ _ _ _ C) as (n & Hn & He).
  destruct l as [|x l].
  - destruct (Hne eq_refl) as [->|(c & E & Hsrc)]; [constructor|]. rewrite E in *. cbn [root_n] in Hn. inversion Hn; subst n.
    constructor. assert (Hem : is_empty _ _ c = true) by (apply (is_empty_bnode K V layer _ _ _ He); reflexivity).
    destruct c as [d s l0 es]. cbn [is_empty] in Hem. destruct l0; try discriminate. destruct es; [|discriminate].
    constructor; [constructor|constructor|]. intros _ h Eh. cbn [n_src] in Hsrc. congruence.
  - destruct (m_root _ _ m) as [|c|h c|h] eqn:Er; cbn [root_n] in Hn; try discriminate.
    + constructor.
    + inversion Hn; subst n. inversion Ha; subst. constructor.
      apply (allh_shaped K V layer P (m_height _ _ m) D c (x :: l)); [exact HD|discriminate|exact He|assumption].
    + inversion Hn; subst n. inversion Ha; subst. constructor. split; [assumption|].
      exists (m_height _ _ m), (x :: l). repeat split; [exact HD|discriminate|exact He].
Qed.

Theorem diff_once_canon bf (mo mn : mast K V) lo ln :
  canon K V cmp layer bf mo lo -> canon K V cmp layer bf mn ln ->
  no_stored_empty mo lo -> no_stored_empty mn ln ->
  allh_l K V P (m_root _ _ mo) -> allh_l K V P (m_root _ _ mn) ->
  oks (diff _ _ cmp veq layer (Some mo) mn) (fun r => NoDup (ads K V r) /\ NoDup (rms K V r)).
Proof.
  intros Co Cn Eo En Ho Hn.
  set (D := S (Nat.max (m_height _ _ mn) (m_height _ _ mo))).
  assert (crefl : forall k, cmp k k = Eq) by (intros k; apply cmp_eq; reflexivity).
  assert (So : allh_l K V (PS K V layer P D) (m_root _ _ mo)) by (apply (canon_root_shaped bf mo lo D Co Eo); [unfold D; lia|exact Ho]).
  assert (Sn : allh_l K V (PS K V layer P D) (m_root _ _ mn)) by (apply (canon_root_shaped bf mn ln D Cn En); [unfold D; lia|exact Hn]).
  destruct (canon_root_fits K V cmp layer bf mo lo Co) as [Fo Lo]. destruct (canon_root_fits K V cmp layer bf mn ln Cn) as [Fn Ln].
  assert (Pf : forall h a b, PS K V layer P D h a -> PS K V layer P D h b -> a = b) by (intros h a b [Ha _] [Hb _]; exact (Pfun h a b Ha Hb)).
  apply (diff_once K V cmp veq layer crefl veq_refl (PS K V layer P D) (PS_hered K V layer P hered D) Pf (Some mo) mn).
  - intros h c Hq. apply (PS_keyed K V layer P D _ h c); [unfold D; lia|exact Hq].
  - exact Sn.
  - exact Fn.
  - intros t E. inversion E; subst t. split; [exact So|exact Fo].
  - apply (names_l_nodup K V layer P hered Pfun D _ Sn). rewrite Ln. apply (sorted_nodupk K V cmp cmp_eq). exact (cn_sorted _ _ _ _ _ _ _ Cn).
  - cbn [onames]. apply (names_l_nodup K V layer P hered Pfun D _ So). rewrite Lo. apply (sorted_nodupk K V cmp cmp_eq). exact (cn_sorted _ _ _ _ _ _ _ Co).
Qed.
End ONCE_CANON.
