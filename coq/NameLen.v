(** Node names are non-empty and short: base64url of the 32-byte BLAKE2b-256 digest.  Lemma file. *)
From Coq Require Import List NArith ZArith Lia Bool.
From Mast Require Import Prim CodecRT Codec.
Import ListNotations.

Lemma b64_length_le c : forall n bs, (length bs <= n)%nat -> (length (b64 c None bs) <= 2 * length bs)%nat.
Proof.
  induction n as [|n IH]; intros bs Hn.
  - destruct bs; [cbn; lia|cbn in Hn; lia].
  - destruct bs as [|a [|b [|d r]]]; cbn [b64 length app]; try lia.
    assert (Hr : (length r <= n)%nat) by (cbn in Hn; lia). specialize (IH r Hr). lia.
Qed.

Lemma b64_nonempty c bs : bs <> [] -> b64 c None bs <> [].
Proof. destruct bs as [|a [|b [|d r]]]; intros H; [contradiction|discriminate..]. Qed.

Lemma upd_length l i x : length (upd l i x) = length l.
Proof. revert i. induction l as [|a r IH]; intros i; [destruct i; reflexivity|]. destruct i; cbn [upd length]; [reflexivity|rewrite IH; reflexivity]. Qed.

Lemma compress_length h block t last : length (compress h block t last) = 8%nat.
Proof. unfold compress. rewrite map_length, seq_length. reflexivity. Qed.

Lemma blocks_length : forall fuel h bs t, length h = 8%nat -> length (blocks fuel h bs t) = 8%nat.
Proof.
  induction fuel as [|f IH]; intros h bs t Hh; [exact Hh|]. cbn [blocks].
  destruct (N.of_nat (length bs) <=? 128)%N; [apply compress_length|]. apply IH. apply compress_length.
Qed.

Lemma word_bytes_length w n : length (word_bytes w n) = n.
Proof. revert w. induction n as [|n IH]; intros w; [reflexivity|]. cbn [word_bytes length]. rewrite IH. reflexivity. Qed.

Lemma flat_word_bytes_length (h : list N) : length (flat_map (fun w => word_bytes w 8) h) = (8 * length h)%nat.
Proof. induction h as [|w r IH]; [reflexivity|]. cbn [flat_map length]. rewrite app_length, word_bytes_length, IH. lia. Qed.

Lemma blake2b_256_length bs : length (blake2b_256 bs) = 32%nat.
Proof.
  unfold blake2b_256. rewrite firstn_length, flat_word_bytes_length, blocks_length; [reflexivity|].
  rewrite upd_length. reflexivity.
Qed.

Lemma name_of_ok b : name_of b <> [] /\ small_list (name_of b).
Proof.
  unfold name_of, b64url. split.
  - apply b64_nonempty. intros E. pose proof (blake2b_256_length b) as L. rewrite E in L. discriminate.
  - unfold small_list, small, len.
    pose proof (b64_length_le b64url_c 32 (blake2b_256 b) ltac:(rewrite blake2b_256_length; lia)) as L.
    rewrite blake2b_256_length in L.
    apply N.lt_le_trans with (m := 65%N); [lia|]. vm_compute. discriminate.
Qed.
