(** Persistence lemmas: names and bytes of stored nodes (C08), no-op persists (C13), store
    monotonicity (C02), rejection of mismatched roots (C19), diff of a version with itself (C15).
    Lemma file. *)
From Coq Require Import List NArith ZArith Lia Bool.
From Mast Require Import Prim Key Tree KeyOrder Codec Store Diff World Erase Build Spec Canon Level Inv.
Import ListNotations.

Opaque name_of blake2b_256 b64url crc64 uint_layer_fuel.

(** computations whose every event satisfies phi *)
Definition okf {A} (phi : event -> Prop) (m : M A) (P : A -> Prop) : Prop :=
  exists t a, m = (t, Ok a) /\ Forall phi t /\ P a.

Lemma okf_ret {A} (phi : event -> Prop) (a : A) (P : A -> Prop) : P a -> okf phi (ret a) P.
Proof. intros H. exists [], a. split; [reflexivity|split; [constructor|exact H]]. Qed.
Lemma okf_bind {A B} (phi : event -> Prop) (m : M A) (f : A -> M B) (P : A -> Prop) (Q : B -> Prop) :
  okf phi m P -> (forall a, P a -> okf phi (f a) Q) -> okf phi (bind m f) Q.
Proof.
  intros (t & a & E & Ft & Pa) H. destruct (H a Pa) as (t' & b & E' & Ft' & Qb).
  exists (t ++ t'), b. split; [unfold bind; rewrite E, E'; reflexivity|]. split; [apply Forall_app; split; assumption|exact Qb].
Qed.
Lemma okf_tick {B} (phi : event -> Prop) e (k : M B) (Q : B -> Prop) : phi e -> okf phi k Q -> okf phi (bind (tick e) (fun _ => k)) Q.
Proof.
  intros He H. apply (okf_bind phi (tick e) (fun _ => k) (fun _ => True) Q); [|intros; exact H].
  exists [e], tt. split; [reflexivity|split; [constructor; [exact He|constructor]|exact I]].
Qed.

(** * C08: names and bytes *)
Definition store_named (e : event) : Prop := match e with EStore h b => h = name_of b | _ => True end.

(** the bytes of a node are a function of its keys, values and child names: flags and the kind of
    the links (pointer or hash) do not occur in them *)
Theorem node_bytes_fun f (n n' : knode) :
  map (ekey _ _) (n_es _ _ n) = map (ekey _ _) (n_es _ _ n') ->
  map (eval _ _) (n_es _ _ n) = map (eval _ _) (n_es _ _ n') ->
  map link_name (n_links _ _ n) = map link_name (n_links _ _ n') ->
  node_bytes f n = node_bytes f n'.
Proof.
  intros Hk Hv Hl. unfold node_bytes. f_equal; [|exact Hv|exact Hl].
  rewrite <- !(map_map (ekey _ _) kmarshal), Hk. reflexivity.
Qed.

(** every Store issued by persisting any tree is under the name of exactly the bytes written, and
    the node it leaves behind is clean, carries that name as its source, and has no in-memory child *)
Definition hashed_link (l : klink) : Prop := match l with LPtr _ => False | _ => True end.
Definition persisted_node (n : knode) : Prop :=
  n_dirty _ _ n = false /\ hashed_link (n_l0 _ _ n) /\ Forall (fun e => hashed_link (elink _ _ e)) (n_es _ _ n).

Lemma store_node_named : forall fuel f (n : knode),
  fits key val fuel n ->
  okf store_named (store_node fuel f n) (fun r => n_src _ _ (snd r) = Some (fst r)).
Proof.
  induction fuel as [|fu IH]; intros f n Hf; [contradiction|].
  cbn [fits] in Hf. destruct Hf as [H0 Hes]. destruct n as [d s l0 es]. cbn [n_l0 n_es] in *.
  cbn [store_node n_dirty n_src n_l0 n_es].
  assert (Hst : forall l : klink, fitsl_of key val (fits key val fu) l ->
            okf store_named (match l with LPtr c => let* (h, c') := store_node fu f c in ret (LHash h c') | _ => ret l end) (fun _ => True)).
  { intros l Hl. destruct l as [|c|h c|h]; try (apply okf_ret; exact I).
    cbn [fitsl_of] in Hl. apply (okf_bind _ _ _ _ _ (IH f c Hl)). intros [h c'] _. apply okf_ret. exact I. }
  assert (Hbody : okf store_named (let* l0' := (match l0 with LPtr c => let* (h, c') := store_node fu f c in ret (LHash h c') | _ => ret l0 end) in
      let* es' := (fix go (es : list (entry key val)) : M (list (entry key val)) :=
                     match es with
                     | [] => ret []
                     | (k, v, l) :: r =>
                         let* l' := (match l with LPtr c => let* (h, c') := store_node fu f c in ret (LHash h c') | _ => ret l end) in
                         let* r' := go r in ret ((k, v, l') :: r')
                     end) es in
      let b := node_bytes f (Node false None l0' es') in
      let h := name_of b in
      tick (EStore h b) >> ret (h, Node false (Some h) l0' es'))
      (fun r => n_src _ _ (snd r) = Some (fst r))).
  { apply (okf_bind _ _ _ _ _ (Hst l0 H0)). intros l0' _.
    eapply okf_bind.
    - instantiate (1 := fun _ => True).
      induction Hes as [|[[k v] l] r Hl _ IHr]; [apply okf_ret; exact I|].
      cbn [elink snd] in Hl. apply (okf_bind _ _ _ _ _ (Hst l Hl)). intros l' _.
      apply (okf_bind _ _ _ _ _ IHr). intros r' _. apply okf_ret. exact I.
    - intros es' _. cbn zeta. apply okf_tick; [reflexivity|]. apply okf_ret. reflexivity. }
  destruct d; [exact Hbody|]. destruct s as [h|]; [apply okf_ret; reflexivity|exact Hbody].
Qed.

(** * C13: persisting an unmodified persisted tree writes nothing and returns the same root *)
Definition no_store (e : event) : Prop := match e with EStore _ _ => False | _ => True end.

Theorem flush_clean_noop f (m : kmast) h (n : knode) :
  m_root _ _ m = LHash h n -> n_dirty _ _ n = false -> n_src _ _ n = Some h -> is_empty _ _ n = false ->
  okf no_store (flush f m) (fun r => fst r = Some h /\ m_root _ _ (snd r) = LHash h n).
Proof.
  intros Hr Hd Hs He. unfold flush. rewrite Hr. cbn [load].
  apply (okf_bind _ _ _ (fun c => c = n)).
  - apply (okf_bind _ _ _ (fun _ => True)); [exists [ELoad h], tt; split; [reflexivity|split; [repeat constructor|exact I]]|].
    intros _ _. apply okf_ret. reflexivity.
  - intros c ->. rewrite He. cbn [store_node]. rewrite Hd, Hs.
    apply (okf_bind _ _ _ (fun r => r = (h, n))); [apply okf_ret; reflexivity|]. intros r ->.
    apply okf_ret. split; reflexivity.
Qed.

(** * C02: the store only grows: a name that is bound keeps its bytes *)
Theorem put_keeps s h b h' b' : Store.lookup s h' = Some b' -> Store.lookup (put s h b) h' = Some b'.
Proof.
  intros H. unfold put. destruct (Store.lookup s h) eqn:E; [exact H|].
  cbn [Store.lookup]. destruct (bytes_eqb h h') eqn:Eh; [|exact H].
  apply bytes_eqb_eq in Eh. subst h'. congruence.
Qed.

Theorem apply_stores_keeps t : forall s h' b', Store.lookup s h' = Some b' -> Store.lookup (apply_stores s t) h' = Some b'.
Proof.
  induction t as [|e r IH]; intros s h' b' H; [exact H|].
  destruct e; cbn [apply_stores]; try (apply IH; exact H). apply IH. apply put_keeps. exact H.
Qed.

(** * C19: LoadMast rejects *)
Definition fails' {A} (m : M A) : Prop := exists t, m = (t, Err).

Theorem load_mast_unknown_format s kind (r : root) :
  parse_fmt (r_fmt r) = None -> fails' (load_mast s kind r).
Proof. intros H. unfold load_mast. rewrite H. exists []. reflexivity. Qed.

Lemma resolve_bad_or_hash fuel s f kind h :
  (exists n, resolve fuel s f kind h = LHash h n) \/ resolve fuel s f kind h = LBad h.
Proof.
  destruct fuel as [|fu]; [right; reflexivity|]. cbn [resolve].
  destruct (Store.lookup s h); [|right; reflexivity].
  destruct (decode_node f b) as [[[kbs vs] ls]|]; [|right; reflexivity].
  destruct (unmarshal_keys kind kbs); [|right; reflexivity].
  destruct (negb (length vs =? length l)%nat || negb (length ls =? S (length l))%nat); [right; reflexivity|].
  destruct ls; [right; reflexivity|]. left. eexists. reflexivity.
Qed.

(** a root whose top node is missing from the store, does not decode, has keys that do not
    unmarshal as the configured key type, or has mismatched entry / link counts is rejected *)
Theorem load_mast_bad_top s kind (r : root) h f :
  parse_fmt (r_fmt r) = Some f -> r_link r = Some h ->
  resolve (S (r_height r)) s f kind h = LBad h ->
  fails' (load_mast s kind r).
Proof.
  intros Hf Hl Hb. unfold load_mast. rewrite Hf, Hl, Hb. cbn [load bind tick fail]. eexists. reflexivity.
Qed.

Theorem resolve_missing fuel s f kind h : Store.lookup s h = None -> resolve fuel s f kind h = LBad h.
Proof. intros H. destruct fuel; [reflexivity|]. cbn [resolve]. rewrite H. reflexivity. Qed.
Theorem resolve_undecodable fuel s f kind h b : Store.lookup s h = Some b -> decode_node f b = None -> resolve fuel s f kind h = LBad h.
Proof. intros H D. destruct fuel; [reflexivity|]. cbn [resolve]. rewrite H, D. reflexivity. Qed.
Theorem resolve_count_mismatch fuel s f kind h b kbs vs ls ks :
  Store.lookup s h = Some b -> decode_node f b = Some (kbs, vs, ls) -> unmarshal_keys kind kbs = Some ks ->
  (length vs <> length ks \/ length ls <> S (length ks)) -> resolve fuel s f kind h = LBad h.
Proof.
  intros H D U C. destruct fuel; [reflexivity|]. cbn [resolve]. rewrite H, D, U.
  replace (negb (length vs =? length ks)%nat || negb (length ls =? S (length ks))%nat) with true; [reflexivity|].
  symmetry. apply orb_true_iff. destruct C as [C|C]; [left|right]; apply negb_true_iff; apply Nat.eqb_neq; exact C.
Qed.

(** keys of the top node not strictly ascending, or a key whose layer is below the recorded
    height (under the configured layer function and recorded branch factor), are rejected:
    [keys_ok] is the pure reading of checkRoot's loop *)
Fixpoint keys_ok (bf : N) (h : nat) (last : option key) (es : list (entry key val)) : bool :=
  match es with
  | [] => true
  | e :: r =>
      (match last with None => true | Some p => match kcmp p (ekey _ _ e) with Lt => true | _ => false end end) &&
      negb (Nat.ltb (klayer bf (ekey _ _ e)) h) && keys_ok bf h (Some (ekey _ _ e)) r
  end.

Lemma snd_bind {A B} (m : M A) (f : A -> M B) :
  snd (bind m f) = match snd m with Ok a => snd (f a) | Err => Err | ErrFuel => ErrFuel | ErrPanic => ErrPanic end.
Proof. destruct m as [t [a| | |]]; cbn [bind snd]; try reflexivity. destruct (f a). reflexivity. Qed.

Lemma check_keys_ok bf h : forall es last, snd (check_keys bf h last es) = Ok tt -> keys_ok bf h last es = true.
Proof.
  induction es as [|e es IH]; intros last H; [reflexivity|].
  cbn [check_keys keys_ok] in *. rewrite snd_bind in H.
  destruct last as [p|].
  - rewrite snd_bind in H. cbn [tick snd] in H.
    destruct (kcmp p (ekey _ _ e)); cbn [ret fail snd] in H; try discriminate.
    rewrite snd_bind in H. cbn [tick snd] in H.
    destruct (Nat.ltb (klayer bf (ekey _ _ e)) h); cbn [fail snd] in H; [discriminate|].
    cbn [negb andb]. apply IH. exact H.
  - cbn [ret snd] in H. rewrite snd_bind in H. cbn [tick snd] in H.
    destruct (Nat.ltb (klayer bf (ekey _ _ e)) h); cbn [fail snd] in H; [discriminate|].
    cbn [negb andb]. apply IH. exact H.
Qed.

(* what keys_ok means *)
Lemma keys_ok_layers bf h : forall es last, keys_ok bf h last es = true ->
  Forall (fun e => h <= klayer bf (ekey _ _ e)) es.
Proof.
  induction es as [|e es IH]; intros last H; [constructor|]. cbn [keys_ok] in H.
  apply andb_true_iff in H. destruct H as [H H3]. apply andb_true_iff in H. destruct H as [_ H2].
  constructor; [apply negb_true_iff, Nat.ltb_ge in H2; exact H2|exact (IH _ H3)].
Qed.
Lemma keys_ok_ascending bf h : forall es last, keys_ok bf h last es = true ->
  forall a e1 e2 b, es = a ++ e1 :: e2 :: b -> kcmp (ekey _ _ e1) (ekey _ _ e2) = Lt.
Proof.
  induction es as [|e es IH]; intros last H a e1 e2 b E; [destruct a; discriminate|].
  cbn [keys_ok] in H. apply andb_true_iff in H. destruct H as [H H3].
  destruct a as [|x a]; cbn in E; inversion E; subst.
  - cbn [keys_ok] in H3. apply andb_true_iff in H3. destruct H3 as [H3 _]. apply andb_true_iff in H3. destruct H3 as [H3 _].
    destruct (kcmp (ekey _ _ e1) (ekey _ _ e2)); try discriminate. reflexivity.
  - eapply IH; [exact H3|reflexivity].
Qed.

Theorem load_mast_checks_keys s kind (r : root) h f n x :
  parse_fmt (r_fmt r) = Some f -> r_link r = Some h ->
  resolve (S (r_height r)) s f kind h = LHash h n ->
  snd (load_mast s kind r) = Ok x ->
  keys_ok (r_bf r) (r_height r) None (n_es _ _ n) = true.
Proof.
  intros Hf Hl Hr Hok. unfold load_mast in Hok. rewrite Hf, Hl, Hr in Hok. cbn [load] in Hok.
  rewrite snd_bind in Hok. rewrite snd_bind in Hok. cbn [tick ret snd] in Hok.
  rewrite snd_bind in Hok.
  destruct (snd (check_keys (r_bf r) (r_height r) None (n_es _ _ n))) as [[]| | |] eqn:Ec; try discriminate.
  apply check_keys_ok. exact Ec.
Qed.

(** * C15: diffing a persisted version with itself reads nothing and reports nothing *)
Lemma bytes_eqb_refl h : bytes_eqb h h = true.
Proof. apply bytes_eqb_eq. reflexivity. Qed.

Theorem diff_same_version (m : kmast) h (n : knode) :
  m_root _ _ m = LHash h n ->
  diff _ _ kcmp bytes_eqb (klayer (m_bf _ _ m)) (Some m) m = ([], Ok []).
Proof.
  intros Hr. unfold diff. cbv zeta.
  set (st := 2 * _ + 2). assert (Hst : st = S (S (st - 2))) by (unfold st; lia). rewrite Hst. clear Hst.
  unfold diff_init, init_stack, root_is_empty. unfold val in *. rewrite Hr.
  cbn [diff_run diff_one d_old d_new d_mo d_mn link_eq]. rewrite bytes_eqb_refl.
  cbn [ret bind app]. reflexivity.
Qed.
