(** C12 at the level of histories: a failing call leaves every tree, root, store and cursor of the
    world as it was, read-only calls never change the world, and the witnesses of the known finding
    D13 (an error after the commit point).  Lemma file. *)
From Coq Require Import List NArith ZArith Lia Bool Arith.
From Mast Require Import Prim Key Tree Codec Store Diff World Events.
Import ListNotations.

Definition is_fail (o : obs) : bool := match o with ObFail _ => true | _ => false end.
Definition read_only (o : op) : bool :=
  match o with
  | OGet _ _ | OSize _ | OHeight _ | OIter _ | OSeek _ _ | ODirty _ | OCGet _
  | ODiff _ _ | ODiffLinks _ _ | ODiffStop _ _ _ | ODiffFail _ _ _ | ODiffCur _ _
  | OIterStop _ _ | OSeekStop _ _ _ => true
  | _ => false
  end.

Lemma ro_world {A} w (m : M A) f : fst (fst (ro w m f)) = w.
Proof. unfold ro. destruct m as [t [a| | |]]; reflexivity. Qed.
Lemma upd_fail w i x m : is_fail (snd (fst (upd w i x m))) = true -> fst (fst (upd w i x m)) = w.
Proof. unfold upd. destruct m as [t [a| | |]]; cbn; intros H; first [discriminate H | reflexivity]. Qed.
Lemma updc_fail w i x m : is_fail (snd (fst (updc w i x m))) = true -> fst (fst (updc w i x m)) = w.
Proof. unfold updc. destruct m as [t [a| | |]]; cbn; intros H; first [discriminate H | reflexivity]. Qed.

(** a failing step changes nothing: trees, captured roots, stores (no node written is ever
    published by a failed call: [apply_stores] runs only on the success branch) and cursors *)
Theorem step_fail_unchanged w o :
  is_fail (snd (fst (step w o))) = true -> fst (fst (step w o)) = w.
Proof.
  destruct o; cbn [step]; unfold with_tree, with_cur.
  all: try (destruct (aget (w_trees w) _) as [x|]; [|reflexivity]).
  all: try (destruct (aget (w_curs w) _) as [x|]; [|reflexivity]).
  all: try (intros _; apply ro_world).
  all: try apply upd_fail.
  all: try apply updc_fail.
  all: try reflexivity.
  - destruct (load_mast _ _ _) as [tr [[fm m]| | |]]; cbn; intros H; first [discriminate H | reflexivity].
  - destruct (make_root (c_fmt (t_cfg x)) (t_m x)) as [tr [[rt m']| | |]]; cbn; intros H; first [discriminate H | reflexivity].
  - destruct (aget (w_roots w) r) as [rt|]; [|reflexivity].
    destruct (load_mast _ _ _) as [tr [[fm m]| | |]]; cbn; intros H; first [discriminate H | reflexivity].
  - destruct (aget (w_roots w) r) as [rt|]; [|reflexivity]. cbn; intros H; discriminate H.
  - destruct (aget (w_roots w) r) as [rt|]; [|reflexivity].
    destruct (r_link rt); [|reflexivity]. destruct (lookup (get_store w s) n); [|reflexivity]. cbn; intros H; discriminate H.
  - destruct (clone _ _ (t_m x)) as [tr [m'| | |]]; cbn; try reflexivity.
    destruct (cursor _ _ m') as [tr2 [p| | |]]; cbn; intros H; first [discriminate H | reflexivity].
Qed.

Theorem step_read_only w o : read_only o = true -> fst (fst (step w o)) = w.
Proof.
  destruct o; cbn [read_only]; try discriminate; intros _; cbn [step]; unfold with_tree, with_cur.
  all: try (destruct (aget (w_trees w) _) as [x|]; [|reflexivity]).
  all: try (destruct (aget (w_curs w) _) as [x|]; [|reflexivity]).
  all: try apply ro_world; reflexivity.
Qed.

Lemma upd_stores w i x m : w_stores (fst (fst (upd w i x m))) = w_stores w.
Proof. unfold upd. destruct m as [t [a| | |]]; reflexivity. Qed.
Lemma updc_stores w i x m : w_stores (fst (fst (updc w i x m))) = w_stores w.
Proof. unfold updc. destruct m as [t [a| | |]]; reflexivity. Qed.

(** only MakeRoot (and the harness's own corruption op) ever changes a store *)
Theorem step_stores w o :
  (match o with OMakeRoot _ _ | OCorrupt _ _ _ _ => False | _ => True end) ->
  w_stores (fst (fst (step w o))) = w_stores w.
Proof.
  destruct o; intros H; try contradiction; cbn [step]; unfold with_tree, with_cur.
  all: try (destruct (aget (w_trees w) _) as [x|]; [|reflexivity]).
  all: try (destruct (aget (w_curs w) _) as [x|]; [|reflexivity]).
  all: try (rewrite ro_world; reflexivity).
  all: try apply upd_stores.
  all: try apply updc_stores.
  all: try reflexivity.
  - destruct (load_mast _ _ _) as [tr [[fm m]| | |]]; reflexivity.
  - destruct (aget (w_roots w) r) as [rt|]; [|reflexivity].
    destruct (load_mast _ _ _) as [tr [[fm m]| | |]]; reflexivity.
  - destruct (aget (w_roots w) r) as [rt|]; reflexivity.
  - destruct (clone _ _ (t_m x)) as [tr [m'| | |]]; [|reflexivity..].
    destruct (cursor _ _ m') as [tr2 [p| | |]]; reflexivity.
Qed.

(** * D13: an error after the commit point.
    The model's [delete] reports the failure of the shrink loop as the failure of the whole call, and
    the world keeps the old tree.  The implementation has by then installed the new root and size
    (pub.go: m.root = ..., m.size--, then the shrink loop).  [delete_committed] is that installed
    state; the full property ("after any failing call the tree still holds its pre-call entries")
    is false of it: *)
Section D13.
Variables (K V : Type) (cmp : K -> K -> comparison) (veq : V -> V -> bool) (layer : K -> nat).
Definition delete_committed (m : mast K V) (k : K) (v : V) : option (mast K V) :=
  match m_root _ _ m with
  | LNil => None
  | r =>
    match snd (load _ _ r) with
    | Ok n =>
      match snd (del _ _ cmp veq (S (m_height _ _ m)) (m_height _ _ m) (Nat.min (layer k) (m_height _ _ m)) k v n) with
      | Ok n' => let m1 := root_of_node _ _ m n' in Some (set_size _ _ m1 (m_size _ _ m1 - 1))
      | _ => None
      end
    | _ => None
    end
  end.
End D13.

Definition d13_layer (k : nat) : nat := if Nat.eqb k 5 then 1 else 0.
(* height 1, one key of layer 1 whose right subtree is a link the store cannot resolve *)
Definition d13_tree : mast nat nat :=
  Mast (LPtr (Node false None LNil [(5, 50, LBad [1%N])])) 1 1 4 4 1 false.

Theorem C12_delete_after_commit_refuted :
  exists m k v m',
    snd (delete nat nat Nat.compare Nat.eqb d13_layer m k v) = Err /\
    In ECommit (fst (delete nat nat Nat.compare Nat.eqb d13_layer m k v)) /\
    delete_committed nat nat Nat.compare Nat.eqb d13_layer m k v = Some m' /\
    to_list _ _ (m_root _ _ m') <> to_list _ _ (m_root _ _ m) /\ m_size _ _ m' <> m_size _ _ m.
Proof.
  exists d13_tree, 5, 50. eexists. split; [vm_compute; reflexivity|].
  split; [vm_compute; tauto|]. split; [vm_compute; reflexivity|].
  split; vm_compute; discriminate.
Qed.
