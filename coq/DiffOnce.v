(** C07, "each name at most once": the per-layer memo of the diff machine (alreadyNotified) never
    lets a name be reported twice.  The argument: a name that has been reported and is still on a
    stack is the name of the link on top of that stack, and the memo still remembers that link;
    once the link is expanded or popped its name has left the stack for good, because the names a
    tree reaches are pairwise distinct.  Lemma file. *)
From Coq Require Import List NArith ZArith Lia Bool Arith.
From Mast Require Import Prim Tree KeyOrder Diff Erase Build Spec Canon Links Level Inv DiffSpec DiffLinks.
Import ListNotations.

Lemma nodup_app_disj {A} (a b : list A) x : NoDup (a ++ b) -> In x a -> In x b -> False.
Proof.
  induction a as [|y a IH]; intros H Ha Hb; [contradiction|]. cbn in H. inversion H as [|? ? Hn Hd]; subst. destruct Ha as [->|Ha].
  - apply Hn. apply in_or_app. right. exact Hb.
  - exact (IH Hd Ha Hb).
Qed.
Lemma nodup_app_r {A} (a b : list A) : NoDup (a ++ b) -> NoDup b.
Proof. induction a as [|y a IH]; intros H; [exact H|]. inversion H; subst. apply IH. assumption. Qed.
Lemma nodup_app_l {A} (a b : list A) : NoDup (a ++ b) -> NoDup a.
Proof.
  induction a as [|y a IH]; intros H; [constructor|]. inversion H as [|? ? Hn Hd]; subst. constructor; [|apply IH; exact Hd].
  intros Hy. apply Hn. apply in_or_app. left. exact Hy.
Qed.

Section DIFFONCE.
Variables K V : Type.
Variable cmp : K -> K -> comparison.
Variable veq : V -> V -> bool.
Variable layer : K -> nat.
Notation node := (node K V).
Notation link := (link K V).
Notation entry := (entry K V).
Notation item := (item K V).
Notation stack := (stack K V).
Notation devent := (devent K V).
Notation dstate := (dstate K V).
Notation memo := (memo K V).
Notation names_st := (names_st K V).
Notation names_l := (names_l K V).
Notation names_n := (names_n K V).
Notation lname := (lname K V).
Notation oname := (oname K V).

Variable P : name -> node -> Prop.
Hypothesis hered : forall h c, P h c -> allh K V P c.
Hypothesis Pfun : forall h a b, P h a -> P h b -> a = b.
Variable fuel : nat.
(* every stored node has a first key within the fuel: alreadyNotified can index its memo *)
Hypothesis Pkeyed : forall h c, P h c -> exists t kh, first_key_layer _ _ layer fuel (LHash h c) = (t, Ok kh).

Definition remembered (m : memo) (l : link) : Prop :=
  exists t kh l', first_key_layer _ _ layer fuel l = (t, Ok kh) /\ memo_get _ _ m kh = Some l' /\ link_eq _ _ l' l = true.

Definition sinv (st : stack) (m : memo) (R : list name) : Prop :=
  NoDup (names_st st) /\ NoDup R /\
  (forall h, In h R -> In h (names_st st) -> exists l ns, st = ILink _ _ l :: ns /\ In h (lname l) /\ remembered m l).

Lemma lname_hash (l : link) h : In h (lname l) -> allh_l K V P l -> exists c, l = LHash h c /\ P h c.
Proof.
  intros Hin Hl. destruct l as [|c|h' c|h']; cbn in Hin; try contradiction.
  - destruct Hin as [<-|[]]. inversion Hl; subst. exists c. split; [reflexivity|assumption].
  - inversion Hl.
Qed.

Lemma link_eq_refl_hash h (c : node) : link_eq _ _ (LHash h c) (LHash h c) = true.
Proof. cbn. apply bytes_eqb_eq. reflexivity. Qed.

Lemma lname_nodup (l : link) : NoDup (lname l).
Proof. destruct l; cbn; repeat constructor; intros []. Qed.

(* noting the link on top of the stack *)
Lemma note_sinv (l : link) ns (m : memo) R :
  allh_l K V P l -> sinv (ILink _ _ l :: ns) m R ->
  okp (note _ _ layer fuel m l) (fun r => sinv (ILink _ _ l :: ns) (snd r) (R ++ oname (fst r))).
Proof.
  intros Hl (Hnd & HR & Htop) t [a m'] E. cbn [fst snd].
  unfold note in E. destruct (notified K V layer fuel m l) as [t' [b m'']] eqn:En. inversion E; subst. clear E.
  assert (Hsub : incl (lname l) (names_st (ILink _ _ l :: ns))).
  { intros x Hx. rewrite names_st_cons. apply in_or_app. left. cbn [names_item]. exact (lname_sub K V l x Hx). }
  unfold notified in En. destruct (first_key_layer K V layer fuel l) as [t0 [kh| | |]] eqn:Ef.
  1: { (* the first key was found *)
    assert (Hfresh : (memo_get _ _ m kh = None \/ exists l', memo_get _ _ m kh = Some l' /\ link_eq _ _ l' l = false) ->
                     forall h, In h (lname l) -> ~ In h R).
    { intros Hm h Hh HhR. destruct (Htop h HhR (Hsub h Hh)) as (l2 & ns2 & E2 & _ & (t2 & kh2 & l'2 & F2 & G2 & Q2)).
      inversion E2; subst l2 ns2. rewrite Ef in F2. inversion F2; subst kh2.
      destruct Hm as [Hm|(l' & Hm & Hq)]; rewrite Hm in G2; [discriminate|]. inversion G2; subst l'2. rewrite Hq in Q2. discriminate. }
    assert (Hnew : (memo_get _ _ m kh = None \/ exists l', memo_get _ _ m kh = Some l' /\ link_eq _ _ l' l = false) ->
                   sinv (ILink _ _ l :: ns) ((kh, l) :: m) (R ++ lname l)).
    { intros Hm. split; [exact Hnd|]. split.
      - (* NoDup (R ++ lname l) *)
        clear Htop. induction R as [|x R IHR]; [apply lname_nodup|]. cbn [app]. inversion HR as [|? ? Hx HR']; subst.
        constructor.
        + intros Hin. apply in_app_or in Hin. destruct Hin as [Hin|Hin]; [exact (Hx Hin)|]. exact (Hfresh Hm x Hin (or_introl eq_refl)).
        + apply IHR; [exact HR'|]. intros Hm' h Hh HhR. exact (Hfresh Hm' h Hh (or_intror HhR)).
      - intros h HhR Hst. apply in_app_or in HhR. destruct HhR as [HhR|Hh].
        + exfalso. destruct (Htop h HhR Hst) as (l2 & ns2 & E2 & Hh2 & _). inversion E2; subst l2 ns2. exact (Hfresh Hm h Hh2 HhR).
        + exists l, ns. split; [reflexivity|]. split; [exact Hh|].
          destruct (lname_hash l h Hh Hl) as (c & -> & Hp).
          exists t0, kh, (LHash h c). split; [exact Ef|]. split; [cbn [memo_get]; rewrite Nat.eqb_refl; reflexivity|apply link_eq_refl_hash]. }
    destruct (memo_get _ _ m kh) as [l'|] eqn:Eg.
    + destruct (link_eq _ _ l' l) eqn:El; inversion En; subst; cbn [oname].
      * rewrite app_nil_r. exact (conj Hnd (conj HR Htop)).
      * apply Hnew. right. exists l'. split; [reflexivity|exact El].
    + inversion En; subst; cbn [oname]. apply Hnew. left. reflexivity. }
  (* no first key: impossible for a stored node; an in-memory link has no name *)
  all: inversion En; subst; cbn [oname].
  all: destruct (lname l) as [|h r] eqn:El; [rewrite app_nil_r; exact (conj Hnd (conj HR Htop))|].
  all: exfalso; assert (Hh : In h (lname l)) by (rewrite El; left; reflexivity).
  all: destruct (lname_hash l h Hh Hl) as (c & -> & Hp); destruct (Pkeyed h c Hp) as (t2 & kh2 & F2); rewrite Ef in F2; discriminate.
Qed.

(* the top item leaves the stack, replaced by what it expands to *)
Lemma drop_sinv (it : item) (X ns : list item) (m : memo) R Z :
  names_item K V it = Z ++ names_st X -> (forall l, it = ILink _ _ l -> incl (lname l) Z) ->
  sinv (it :: ns) m R -> sinv (X ++ ns) m R.
Proof.
  intros Hn Hz (Hnd & HR & Htop). rewrite names_st_cons, Hn, <- app_assoc in Hnd.
  split; [rewrite names_st_app; exact (nodup_app_r _ _ Hnd)|]. split; [exact HR|].
  intros h HhR Hst. exfalso. rewrite names_st_app in Hst.
  assert (Hst' : In h (names_st (it :: ns))).
  { rewrite names_st_cons, Hn, <- app_assoc. apply in_or_app. right. exact Hst. }
  destruct (Htop h HhR Hst') as (l & ns2 & E & Hh & _). inversion E; subst.
  exact (nodup_app_disj _ _ h Hnd (Hz l eq_refl h Hh) Hst).
Qed.

Lemma drop_link (l : link) (n : node) ns (m : memo) R :
  names_l l = lname l ++ names_n n -> sinv (ILink _ _ l :: ns) m R -> sinv (items_of _ _ n ++ ns) m R.
Proof.
  intros Hn. apply (drop_sinv (ILink _ _ l) (items_of _ _ n) ns m R (lname l)).
  - cbn [names_item]. rewrite names_items_of. exact Hn.
  - intros l2 E. inversion E; subst. apply incl_refl.
Qed.
Lemma drop_link0 (l : link) (n : node) ns (m : memo) R :
  names_l l = lname l ++ names_l (n_l0 _ _ n) -> sinv (ILink _ _ l :: ns) m R -> sinv (link_item _ _ (n_l0 _ _ n) ++ ns) m R.
Proof.
  intros Hn. apply (drop_sinv (ILink _ _ l) (link_item _ _ (n_l0 _ _ n)) ns m R (lname l)).
  - cbn [names_item]. rewrite names_link_item. exact Hn.
  - intros l2 E. inversion E; subst. apply incl_refl.
Qed.
Lemma drop_pop (l : link) ns (m : memo) R : sinv (ILink _ _ l :: ns) m R -> sinv ns m R.
Proof.
  apply (drop_sinv (ILink _ _ l) [] ns m R (names_l l)).
  - cbn. rewrite app_nil_r. reflexivity.
  - intros l2 E. inversion E; subst. apply lname_sub.
Qed.
Lemma drop_yield k v ns (m : memo) R : sinv (IYield _ _ k v :: ns) m R -> sinv ns m R.
Proof.
  apply (drop_sinv (IYield _ _ k v) [] ns m R []).
  - reflexivity.
  - intros l2 E. discriminate E.
Qed.

Notation ad := (ad K V).
Notation rm := (rm K V).

Definition opost (Ra Rr : list name) (r : devent * dstate) : Prop :=
  sinv (d_new _ _ (snd r)) (d_mn _ _ (snd r)) (Ra ++ ad (fst r)) /\
  sinv (d_old _ _ (snd r)) (d_mo _ _ (snd r)) (Rr ++ rm (fst r)).

Ltac fin2 := unfold opost; cbn [fst snd d_old d_new d_mo d_mn DiffLinks.ad DiffLinks.rm DiffLinks.oname]; rewrite ?app_nil_r.

Lemma one_once (s : dstate) Ra Rr :
  wf K V P s -> sinv (d_new _ _ s) (d_mn _ _ s) Ra -> sinv (d_old _ _ s) (d_mo _ _ s) Rr ->
  okp (diff_one _ _ cmp veq layer fuel s) (opost Ra Rr).
Proof.
  destruct s as [mo mn old new]. intros [Wo Wn] Sn So. cbn [d_old d_new d_mo d_mn] in *.
  destruct old as [|[lo|ko vo] os], new as [|[ln|kn vn] ns]; cbn [diff_one d_old d_new d_mo d_mn].
  - apply okp_ret. fin2. split; assumption.
  - inversion Wn as [|x y Hit Wns]; subst; cbn [item_ok] in Hit; destruct Hit as [Hln _].
    apply (okp_bind _ _ _ _ (note_sinv ln ns mn Ra Hln Sn)). intros [a mn'] Sn'. cbn [fst snd] in Sn'.
    apply (okp_bind _ _ _ _ (load_names K V ln)). intros n Hnm. apply okp_ret. fin2.
    split; [exact (drop_link ln n ns mn' _ Hnm Sn')|exact So].
  - apply okp_ret. fin2. split; [exact (drop_yield kn vn ns mn Ra Sn)|exact So].
  - inversion Wo as [|x y Hit Wos]; subst; cbn [item_ok] in Hit; destruct Hit as [Hlo _].
    apply (okp_bind _ _ _ _ (note_sinv lo os mo Rr Hlo So)). intros [r mo'] So'. cbn [fst snd] in So'.
    apply (okp_bind _ _ _ _ (load_names K V lo)). intros n Hnm. apply okp_ret. fin2.
    split; [exact Sn|exact (drop_link lo n os mo' _ Hnm So')].
  - inversion Wo as [|x y Hit Wos]; subst; cbn [item_ok] in Hit; destruct Hit as [Hlo _].
    inversion Wn as [|x y Hit Wns]; subst; cbn [item_ok] in Hit; destruct Hit as [Hln _].
    destruct (link_eq _ _ lo ln) eqn:Eq.
    { apply okp_ret. fin2. split; [exact (drop_pop ln ns mn Ra Sn)|exact (drop_pop lo os mo Rr So)]. }
    apply (okp_bind _ _ _ _ (note_sinv lo os mo Rr Hlo So)). intros [r mo'] So'. cbn [fst snd] in So'.
    apply (okp_bind _ _ _ _ (note_sinv ln ns mn Ra Hln Sn)). intros [a mn'] Sn'. cbn [fst snd] in Sn'.
    apply (okp_bind _ _ _ _ (load_names K V lo)). intros no Hnmo.
    destruct (n_es _ _ no) as [|eo reo] eqn:Eo.
    { apply okp_ret. fin2. rewrite (names_noes K V _ Eo) in Hnmo. split; [exact Sn'|exact (drop_link0 lo no os mo' _ Hnmo So')]. }
    apply (okp_bind _ _ _ _ (load_names K V ln)). intros nn Hnmn.
    destruct (n_es _ _ nn) as [|en ren] eqn:En.
    { apply okp_ret. fin2. rewrite (names_noes K V _ En) in Hnmn. split; [exact (drop_link0 ln nn ns mn' _ Hnmn Sn')|exact So']. }
    apply okp_tick. destruct (cmp (ekey _ _ eo) (ekey _ _ en)); apply okp_ret; fin2.
    + split; [exact (drop_link ln nn ns mn' _ Hnmn Sn')|exact (drop_link lo no os mo' _ Hnmo So')].
    + split; [exact Sn'|exact (drop_link lo no os mo' _ Hnmo So')].
    + split; [exact (drop_link ln nn ns mn' _ Hnmn Sn')|exact So'].
  - inversion Wo as [|x y Hit Wos]; subst; cbn [item_ok] in Hit; destruct Hit as [Hlo _].
    apply (okp_bind _ _ _ _ (note_sinv lo os mo Rr Hlo So)). intros [r mo'] So'. cbn [fst snd] in So'.
    apply (okp_bind _ _ _ _ (load_names K V lo)). intros n Hnm. apply okp_ret. fin2.
    split; [exact Sn|exact (drop_link lo n os mo' _ Hnm So')].
  - apply okp_ret. fin2. split; [exact Sn|exact (drop_yield ko vo os mo Rr So)].
  - inversion Wn as [|x y Hit Wns]; subst; cbn [item_ok] in Hit; destruct Hit as [Hln _].
    apply (okp_bind _ _ _ _ (note_sinv ln ns mn Ra Hln Sn)). intros [a mn'] Sn'. cbn [fst snd] in Sn'.
    apply (okp_bind _ _ _ _ (load_names K V ln)). intros n Hnm. apply okp_ret. fin2.
    split; [exact (drop_link ln n ns mn' _ Hnm Sn')|exact So].
  - apply okp_tick. destruct (cmp ko kn); [destruct (veq vo vn)|..]; apply okp_ret; fin2.
    + split; [exact (drop_yield kn vn ns mn Ra Sn)|exact (drop_yield ko vo os mo Rr So)].
    + split; [exact (drop_yield kn vn ns mn Ra Sn)|exact (drop_yield ko vo os mo Rr So)].
    + split; [exact Sn|exact (drop_yield ko vo os mo Rr So)].
    + split; [exact (drop_yield kn vn ns mn Ra Sn)|exact So].
Qed.

Hypothesis cmp_refl : forall k, cmp k k = Eq.
Hypothesis veq_refl : forall v, veq v v = true.
Notation ads := (ads K V).
Notation rms := (rms K V).

Lemma run_once : forall steps (s : dstate) Ra Rr,
  wf K V P s -> sinv (d_new _ _ s) (d_mn _ _ s) Ra -> sinv (d_old _ _ s) (d_mo _ _ s) Rr ->
  okp (diff_run _ _ cmp veq layer steps fuel s) (fun r => NoDup (Ra ++ ads r) /\ NoDup (Rr ++ rms r)).
Proof.
  induction steps as [|st IH]; intros s Ra Rr W Sn So; [apply okp_nofuel|]. cbn [diff_run].
  apply (okp_bind _ _ (fun r => wf K V P (snd r) /\ opost Ra Rr r)).
  { intros t r E. destruct (one_ok K V cmp veq layer cmp_refl veq_refl P hered Pfun fuel s W) as (t' & r' & E' & W' & _).
    rewrite E in E'. assert (Hr : r = r') by congruence. subst r'. split; [exact W'|exact (one_once s Ra Rr W Sn So t r E)]. }
  intros [e s'] (W' & Sn' & So'). cbn [fst snd] in *.
  assert (Hcons : forall e0, okp (diff_run _ _ cmp veq layer st fuel s') (fun r => NoDup ((Ra ++ ad e0) ++ ads r) /\ NoDup ((Rr ++ rm e0) ++ rms r)) ->
            okp (let* r := diff_run _ _ cmp veq layer st fuel s' in ret (e0 :: r)) (fun r => NoDup (Ra ++ ads r) /\ NoDup (Rr ++ rms r))).
  { intros e0 H. apply (okp_bind _ _ _ _ H). intros r [H1 H2]. apply okp_ret. unfold DiffLinks.ads, DiffLinks.rms in *. cbn [flat_map].
    rewrite <- !app_assoc in *. split; assumption. }
  assert (Hskip : ad e = [] -> rm e = [] -> okp (diff_run _ _ cmp veq layer st fuel s') (fun r => NoDup (Ra ++ ads r) /\ NoDup (Rr ++ rms r))).
  { intros Ea Er. rewrite Ea, app_nil_r in Sn'. rewrite Er, app_nil_r in So'. apply IH; assumption. }
  destruct e as [|a rmv k av rv|r a|].
  - apply Hskip; reflexivity.
  - apply Hcons. apply IH; assumption.
  - destruct r as [r|]; [apply Hcons; apply IH; assumption|]. destruct a as [a|]; [apply Hcons; apply IH; assumption|].
    apply Hskip; reflexivity.
  - apply okp_ret. unfold DiffLinks.ads, DiffLinks.rms. cbn [flat_map]. rewrite !app_nil_r. split; [exact (proj1 (proj2 Sn))|exact (proj1 (proj2 So))].
Qed.

End DIFFONCE.

Section DIFFONCE_TOP.
Variables K V : Type.
Variable cmp : K -> K -> comparison.
Variable veq : V -> V -> bool.
Variable layer : K -> nat.
Hypothesis cmp_refl : forall k, cmp k k = Eq.
Hypothesis veq_refl : forall v, veq v v = true.
Variable P : name -> node K V -> Prop.
Hypothesis hered : forall h c, P h c -> allh K V P c.
Hypothesis Pfun : forall h a b, P h a -> P h b -> a = b.

(** a whole diff reports every name at most once as added and at most once as removed *)
Theorem diff_once (o : option (mast K V)) (n : mast K V) :
  let fuel := S (Nat.max (S (m_height _ _ n)) (match o with Some t => S (m_height _ _ t) | None => 0 end)) in
  (forall h c, P h c -> exists t kh, first_key_layer _ _ layer fuel (LHash h c) = (t, Ok kh)) ->
  allh_l K V P (m_root _ _ n) -> fitsl_of K V (fits K V (S (m_height _ _ n))) (m_root _ _ n) ->
  (forall t, o = Some t -> allh_l K V P (m_root _ _ t) /\ fitsl_of K V (fits K V (S (m_height _ _ t))) (m_root _ _ t)) ->
  NoDup (names_l K V (m_root _ _ n)) -> NoDup (onames K V o) ->
  oks (diff _ _ cmp veq layer o n) (fun r => NoDup (ads K V r) /\ NoDup (rms K V r)).
Proof.
  intros fuel Hk Hn Fn Ho Dn Do.
  destruct (diff_entries K V cmp veq layer cmp_refl veq_refl P hered Pfun o n Hn Fn Ho) as (t & r & E & _).
  exists t, r. split; [exact E|].
  assert (W : wf K V P (diff_init _ _ o n)).
  { split; cbn [diff_init d_old d_new]; apply init_wf; [intros t0 E0; apply (Ho t0 E0)|intros t0 E0; inversion E0; subst; exact Hn]. }
  assert (Sn : sinv K V layer fuel (d_new _ _ (diff_init _ _ o n)) (d_mn _ _ (diff_init _ _ o n)) []).
  { cbn [diff_init d_new d_mn]. split; [rewrite (init_names K V (Some n)); exact Dn|]. split; [constructor|intros h []]. }
  assert (So : sinv K V layer fuel (d_old _ _ (diff_init _ _ o n)) (d_mo _ _ (diff_init _ _ o n)) []).
  { cbn [diff_init d_old d_mo]. split; [rewrite (init_names K V o); exact Do|]. split; [constructor|intros h []]. }
  unfold diff in E.
  exact (run_once K V cmp veq layer P hered Pfun fuel Hk cmp_refl veq_refl _ _ [] [] W Sn So t r E).
Qed.
End DIFFONCE_TOP.
