(** Extraction of the executable model for the correspondence check.  ExtrOcamlBasic only:
    its Extract Inductive directives for bool, option, unit, list, prod, sumbool/sumor and its
    Extract Inlined Constant for andb/orb/fst/snd etc.; no Extract Constant of ours; numbers stay
    Coq's positive / N / Z / nat. *)
From Coq Require Import ExtrOcamlBasic List NArith ZArith.
From Mast Require Import Prim Key Tree Codec Store Diff World.
Extraction "model.ml" step run empty_world root_json name_of kmarshal klayer kcmp crc64 encode_node narrow_cmp narrow_layer.
