(** Node codecs (codec.go, store.go) and the Root record's JSON form.  Model file.
    Both node formats are modelled byte-exactly for the node shapes; element bodies are the JSON
    encodings of Key.v (keys) and opaque byte strings supplied by the harness (values). *)
From Coq Require Import List NArith ZArith Lia Bool.
From Mast Require Import Prim Key.
Import ListNotations.
Local Open Scope N_scope.

Definition len (bs : bytes) : N := N.of_nat (length bs).

(** * v1.1.5binary (codec.go:105-131) *)
(* appendEfaceSlice *)
Definition enc_bodies (bodies : list bytes) : bytes :=
  uvarint (N.of_nat (length bodies)) ++ flat_map (fun b => uvarint (len b) ++ b) bodies.

(* a link as the codec sees it: None = nil, Some name *)
Definition all_none {A} (ls : list (option A)) : bool := forallb (fun l => match l with None => true | _ => false end) ls.
Definition link_body (l : option name) : bytes := match l with None => [] | Some h => h end.

(* node.store trims the link list when every link is nil (store.go:230-233) *)
Definition encode_bin (keys vals : list bytes) (links : list (option name)) : bytes :=
  enc_bodies keys ++ enc_bodies vals ++
  (if all_none links then uvarint 0 else enc_bodies (map link_body links)).

(* decodeBytes: a zero length leaves the body nil *)
Definition dec_body (bs : bytes) : option (bytes * bytes) :=
  match read_uvarint bs with
  | Some (n, r) =>
      if N.of_nat (length r) <? n then None
      else Some (firstn (N.to_nat n) r, skipn (N.to_nat n) r)
  | None => None
  end.
Fixpoint dec_n_bodies (cnt : nat) (bs : bytes) : option (list bytes * bytes) :=
  match cnt with
  | O => Some ([], bs)
  | S c => match dec_body bs with
           | Some (b, r) => match dec_n_bodies c r with
                            | Some (l, r') => Some (b :: l, r')
                            | None => None
                            end
           | None => None
           end
  end.
(* decodeEfaceSlice / decodeStringSlice; as repaired by D16 a count larger than the remaining
   buffer (each element takes at least one byte) is an error *)
Definition dec_bodies (bs : bytes) : option (list bytes * bytes) :=
  match read_uvarint bs with
  | Some (n, r) => if N.of_nat (length r) <? n then None else dec_n_bodies (N.to_nat n) r
  | None => None
  end.

Definition decode_bin (bs : bytes) : option (list bytes * list bytes * list (option name)) :=
  match dec_bodies bs with
  | Some (ks, r1) =>
    match dec_bodies r1 with
    | Some (vs, r2) =>
      match dec_bodies r2 with
      | Some (ls, _) =>
          let links := map (fun b => match b with [] => None | _ => Some b end) ls in
          (* loadPersisted: an absent link list means len(Key)+1 nil links *)
          let links := match links with [] => repeat None (S (length ks)) | _ => links end in
          Some (ks, vs, links)
      | None => None
      end
    | None => None
    end
  | None => None
  end.

(** * v1marshaler with the default JSON marshaler: {"Key":[..],"Value":[..],"Link":[..]} *)
Fixpoint join (sep : bytes) (l : list bytes) : bytes :=
  match l with [] => [] | [x] => x | x :: r => x ++ sep ++ join sep r end.
Definition s_key : bytes := [123;34;75;101;121;34;58;91].            (* {"Key":[ *)
Definition s_value : bytes := [93;44;34;86;97;108;117;101;34;58;91].  (* ],"Value":[ *)
Definition s_link : bytes := [93;44;34;76;105;110;107;34;58;91].      (* ],"Link":[ *)
Definition s_null : bytes := [110;117;108;108].
Definition encode_v1 (keys vals : list bytes) (links : list (option name)) : bytes :=
  s_key ++ join [44] keys ++ s_value ++ join [44] vals ++
  (if all_none links then [93;125]
   else s_link ++ join [44] (map (fun l => match l with None => s_null | Some h => quote h end) links) ++ [93;125]).

(* split the elements of a JSON array; input starts after '['; returns elements and the rest after ']' *)
Fixpoint json_elems (bs : bytes) (depth : nat) (instr esc : bool) (cur : bytes) (acc : list bytes)
  : option (list bytes * bytes) :=
  match bs with
  | [] => None
  | b :: r =>
    if instr then
      if esc then json_elems r depth true false (b :: cur) acc
      else if b =? 92 then json_elems r depth true true (b :: cur) acc
      else if b =? 34 then json_elems r depth false false (b :: cur) acc
      else json_elems r depth true false (b :: cur) acc
    else if b =? 34 then json_elems r depth true false (b :: cur) acc
    else if (b =? 91) || (b =? 123) then json_elems r (S depth) false false (b :: cur) acc
    else if (b =? 93) || (b =? 125) then
      match depth with
      | O => Some (rev (match cur, acc with [], [] => [] | _, _ => rev cur :: acc end), r)
      | S d => json_elems r d false false (b :: cur) acc
      end
    else if (b =? 44) && (Nat.eqb depth 0) then json_elems r depth false false [] (rev cur :: acc)
    else json_elems r depth false false (b :: cur) acc
  end.

Definition decode_v1 (bs : bytes) : option (list bytes * list bytes * list (option name)) :=
  match strip_prefix s_key bs with
  | Some r =>
    match json_elems r 0 false false [] [] with
    | Some (ks, r1) =>
      match strip_prefix (tl s_value) r1 with
      | Some r2 =>
        match json_elems r2 0 false false [] [] with
        | Some (vs, r3) =>
          if bytes_eqb r3 [125] then
            if Nat.eqb (length ks) (length vs) then Some (ks, vs, repeat None (S (length ks))) else None
          else
          match strip_prefix (tl s_link) r3 with
          | Some r4 =>
            match json_elems r4 0 false false [] [] with
            | Some (ls, r5) =>
              if bytes_eqb r5 [125] && Nat.eqb (length ks) (length vs) && Nat.leb (length ls) (S (length ks)) then
                (* unmarshalStringNode: Link has len(Key)+1 slots, filled from the decoded list *)
                let ls' := map (fun b => if bytes_eqb b s_null then None
                                         else match unquote b with Some [] => None | Some h => Some h | None => None end) ls in
                Some (ks, vs, firstn (S (length ks)) (ls' ++ repeat None (S (length ks))))
              else None
            | None => None
            end
          | None => None
          end
        | None => None
        end
      | None => None
      end
    | None => None
    end
  | None => None
  end.

(** * node format selection *)
Definition fmt_bin : bytes := [118;49;46;49;46;53;98;105;110;97;114;121].      (* v1.1.5binary *)
Definition fmt_v1 : bytes := [118;49;109;97;114;115;104;97;108;101;114].        (* v1marshaler *)
Inductive nfmt := FBin | FV1.
Definition fmt_string (f : nfmt) : bytes := match f with FBin => fmt_bin | FV1 => fmt_v1 end.
(* LoadMast's switch (pub.go:572-580) *)
Definition parse_fmt (s : bytes) : option nfmt :=
  if bytes_eqb s fmt_bin then Some FBin
  else if bytes_eqb s fmt_v1 || bytes_eqb s [] then Some FV1 else None.
Definition encode_node (f : nfmt) := match f with FBin => encode_bin | FV1 => encode_v1 end.
Definition decode_node (f : nfmt) := match f with FBin => decode_bin | FV1 => decode_v1 end.

(** * Root and its JSON form (encoding/json of the five fields, NodeFormat omitempty) *)
Record root := Root {
  r_link : option name; r_size : N; r_height : nat; r_bf : N; r_fmt : bytes }.
Definition root_json (r : root) : bytes :=
  [123;34;76;105;110;107;34;58] ++ (match r_link r with None => s_null | Some h => quote h end) ++
  [44;34;83;105;122;101;34;58] ++ dec_N (r_size r) ++
  [44;34;72;101;105;103;104;116;34;58] ++ dec_N (N.of_nat (r_height r)) ++
  [44;34;66;114;97;110;99;104;70;97;99;116;111;114;34;58] ++ dec_N (r_bf r) ++
  (match r_fmt r with [] => [] | f => [44;34;78;111;100;101;70;111;114;109;97;116;34;58] ++ quote f end) ++ [125].

(** reading the JSON form back (encoding/json on the text [root_json] produces; the harness passes
    every Root through its JSON text) *)
Definition isdigit (b : N) : bool := (48 <=? b) && (b <=? 57).
Fixpoint take_digits (bs : bytes) : bytes * bytes :=
  match bs with
  | b :: r => if isdigit b then let (d, rest) := take_digits r in (b :: d, rest) else ([], bs)
  | [] => ([], [])
  end.
Definition p_link : bytes := [123;34;76;105;110;107;34;58].
Definition p_size : bytes := [44;34;83;105;122;101;34;58].
Definition p_height : bytes := [44;34;72;101;105;103;104;116;34;58].
Definition p_bf : bytes := [44;34;66;114;97;110;99;104;70;97;99;116;111;114;34;58].
Definition p_fmt : bytes := [44;34;78;111;100;101;70;111;114;109;97;116;34;58].
Definition parse_root (bs : bytes) : option root :=
  match strip_prefix p_link bs with
  | None => None
  | Some r1 =>
    let lk := match strip_prefix s_null r1 with
              | Some r2 => Some (None, r2)
              | None => match r1 with 34 :: r2 => let (h, r3) := split_at 34 r2 in Some (Some h, r3) | _ => None end
              end in
    match lk with
    | None => None
    | Some (link, r2) =>
      match strip_prefix p_size r2 with
      | None => None
      | Some r3 =>
        let (ds, r4) := take_digits r3 in
        match parse_N ds, strip_prefix p_height r4 with
        | Some sz, Some r5 =>
          let (dh, r6) := take_digits r5 in
          match parse_N dh, strip_prefix p_bf r6 with
          | Some hh, Some r7 =>
            let (db, r8) := take_digits r7 in
            match parse_N db with
            | None => None
            | Some bf =>
              if bytes_eqb r8 [125] then Some (Root link sz (N.to_nat hh) bf [])
              else match strip_prefix p_fmt r8 with
                   | Some (34 :: r9) => let (f, r10) := split_at 34 r9 in
                                        if bytes_eqb r10 [125] then Some (Root link sz (N.to_nat hh) bf f) else None
                   | _ => None
                   end
            end
          | _, _ => None
          end
        | _, _ => None
        end
      end
    end
  end.
(* the Root as it arrives after a trip through its JSON text *)
Definition root_via_json (r : root) : root := match parse_root (root_json r) with Some r' => r' | None => r end.

(** NewRoot (pub.go:652-670) *)
Definition default_bf : N := 16.
Definition new_root (bf : N) (f : option nfmt) : root :=
  Root None 0 0 (if bf =? 0 then default_bf else bf)
       (fmt_string (match f with Some x => x | None => FBin end)).

Example enc_tv : encode_bin [[34;97;34]; [34;98;34]] [[48]; [49]] [None; None; None] = tv_node.
Proof. reflexivity. Qed.
Example dec_tv : decode_bin tv_node = Some ([[34;97;34]; [34;98;34]], [[48]; [49]], [None; None; None]).
Proof. vm_compute. reflexivity. Qed.
Example v1_rt : decode_v1 (encode_v1 [[49]; [50]] [[34;120;34]; [91;49;44;50;93]] [None; Some [65;66]; None])
                = Some ([[49]; [50]], [[34;120;34]; [91;49;44;50;93]], [None; Some [65;66]; None]).
Proof. vm_compute. reflexivity. Qed.
Example v1_rt0 : decode_v1 (encode_v1 [] [] [Some [65]]) = Some ([], [], [Some [65]]).
Proof. vm_compute. reflexivity. Qed.
