(** The diff stack machine of diff.go (as repaired by D6/D17): entry and link events.  Model file. *)
From Coq Require Import List NArith ZArith Lia Bool.
From Mast Require Import Prim Tree.
Import ListNotations.

Section DIFF.
Variables K V : Type.
Variable cmp : K -> K -> comparison.
Variable veq : V -> V -> bool.
Variable layer : K -> nat.
Notation node := (node K V).
Notation link := (link K V).

Inductive item := ILink (l : link) | IYield (k : K) (v : V).
Definition stack := list item.     (* top first *)

Definition link_item (l : link) : list item := match l with LNil => [] | _ => [ILink l] end.
(* iterItemStack.pushNode *)
Definition items_of (n : node) : list item :=
  link_item (n_l0 _ _ n) ++
  flat_map (fun e : entry K V => IYield (ekey _ _ e) (eval _ _ e) :: link_item (elink _ _ e)) (n_es _ _ n).

(* Go's == on link interfaces: equal strings; pointers of different trees are never equal *)
Definition link_eq (a b : link) : bool :=
  match a, b with
  | LHash h _, LHash h' _ => bytes_eqb h h'
  | LHash h _, LBad h' => bytes_eqb h h'
  | LBad h, LHash h' _ => bytes_eqb h h'
  | LBad h, LBad h' => bytes_eqb h h'
  | _, _ => false
  end.

Definition memo := list (nat * link).
Fixpoint memo_get (m : memo) (i : nat) : option link :=
  match m with [] => None | (j, l) :: r => if Nat.eqb i j then Some l else memo_get r i end.

(* alreadyNotified (diff.go:257-293): descends through key-less nodes to the first key, whose
   layer indexes the memo; any failure answers false *)
Fixpoint first_key_layer (fuel : nat) (l : link) : M nat :=
  match fuel with
  | O => nofuel
  | S f =>
    let* n := load _ _ l in
    match n_es _ _ n with
    | [] => first_key_layer f (n_l0 _ _ n)
    | e :: _ => tick ELayer >> ret (layer (ekey _ _ e))
    end
  end.
Definition notified (fuel : nat) (m : memo) (l : link) : list event * (bool * memo) :=
  match first_key_layer fuel l with
  | (t, Ok kh) =>
      match memo_get m kh with
      | Some l' => if link_eq l' l then (t, (true, m)) else (t, (false, (kh, l) :: m))
      | None => (t, (false, (kh, l) :: m))
      end
  | (t, _) => (t, (false, m))
  end.

Inductive devent :=
| DNone
| DEntry (added removed : bool) (k : K) (addedv removedv : option V)
| DLinks (removed added : option link)
| DDone.

Record dstate := DState { d_mo : memo; d_mn : memo; d_old : stack; d_new : stack }.

Definition note (fuel : nat) (m : memo) (l : link) : M (option link * memo) :=
  let '(t, (b, m')) := notified fuel m l in (t, Ok (if b then None else Some l, m')).

(** diffOne (diff.go:107-255); [fuel] bounds the descent of alreadyNotified (height + 1) *)
Definition diff_one (fuel : nat) (s : dstate) : M (devent * dstate) :=
  match d_old s, d_new s with
  | [], [] => ret (DDone, s)
  | [], ILink l :: ns =>
      let* (a, mn) := note fuel (d_mn s) l in
      let* n := load _ _ l in
      ret (DLinks None a, DState (d_mo s) mn [] (items_of n ++ ns))
  | [], IYield k v :: ns => ret (DEntry true false k (Some v) None, DState (d_mo s) (d_mn s) [] ns)
  | ILink l :: os, [] =>
      let* (r, mo) := note fuel (d_mo s) l in
      let* n := load _ _ l in
      ret (DLinks r None, DState mo (d_mn s) (items_of n ++ os) [])
  | IYield k v :: os, [] => ret (DEntry false true k None (Some v), DState (d_mo s) (d_mn s) os [])
  | ILink lo :: os, ILink ln :: ns =>
      if link_eq lo ln then ret (DNone, DState (d_mo s) (d_mn s) os ns)
      else
        let* (r, mo) := note fuel (d_mo s) lo in
        let* (a, mn) := note fuel (d_mn s) ln in
        let* no := load _ _ lo in
        match n_es _ _ no with
        | [] => ret (DLinks r a, DState mo mn (link_item (n_l0 _ _ no) ++ os) (ILink ln :: ns))
        | eo :: _ =>
          let* nn := load _ _ ln in
          match n_es _ _ nn with
          | [] => ret (DLinks r a, DState mo mn (ILink lo :: os) (link_item (n_l0 _ _ nn) ++ ns))
          | en :: _ =>
            tick ECmp >>
            match cmp (ekey _ _ eo) (ekey _ _ en) with
            | Lt => ret (DLinks r a, DState mo mn (items_of no ++ os) (ILink ln :: ns))
            | Gt => ret (DLinks r a, DState mo mn (ILink lo :: os) (items_of nn ++ ns))
            | Eq => ret (DLinks r a, DState mo mn (items_of no ++ os) (items_of nn ++ ns))
            end
          end
        end
  | ILink lo :: os, IYield k v :: ns =>
      let* (r, mo) := note fuel (d_mo s) lo in
      let* no := load _ _ lo in
      ret (DLinks r None, DState mo (d_mn s) (items_of no ++ os) (IYield k v :: ns))
  | IYield k v :: os, ILink ln :: ns =>
      let* (a, mn) := note fuel (d_mn s) ln in
      let* nn := load _ _ ln in
      ret (DLinks None a, DState (d_mo s) mn (IYield k v :: os) (items_of nn ++ ns))
  | IYield ko vo :: os, IYield kn vn :: ns =>
      tick ECmp >>
      match cmp ko kn with
      | Lt => ret (DEntry false true ko None (Some vo), DState (d_mo s) (d_mn s) os (IYield kn vn :: ns))
      | Eq => if veq vo vn then ret (DNone, DState (d_mo s) (d_mn s) os ns)
              else ret (DEntry false false ko (Some vn) (Some vo), DState (d_mo s) (d_mn s) os ns)
      | Gt => ret (DEntry true false kn (Some vn) None, DState (d_mo s) (d_mn s) (IYield ko vo :: os) ns)
      end
  end.

(* newDiffState as repaired: an absent, nil or entry-less root contributes nothing *)
Definition root_is_empty (m : mast K V) : bool :=
  match m_root _ _ m with
  | LNil => true
  | LPtr n => is_empty _ _ n
  | _ => false
  end.
Definition init_stack (m : option (mast K V)) : stack :=
  match m with
  | None => []
  | Some t => if root_is_empty t then [] else [ILink (m_root _ _ t)]
  end.
Definition diff_init (o : option (mast K V)) (n : mast K V) : dstate :=
  DState [] [] (init_stack o) (init_stack (Some n)).

(** the driver loop of Mast.diff / DiffCursor.NextEntry: all events until done *)
Fixpoint diff_run (steps : nat) (fuel : nat) (s : dstate) : M (list devent) :=
  match steps with
  | O => nofuel
  | S st =>
    let* (e, s') := diff_one fuel s in
    match e with
    | DDone => ret []
    | DNone => diff_run st fuel s'
    | DLinks None None => diff_run st fuel s'
    | _ => let* r := diff_run st fuel s' in ret (e :: r)
    end
  end.

(* enough steps for any pair: every step pops an item or expands a link, and a node with n keys
   expands to at most 2n+1 items *)
Fixpoint weight_n (fuel : nat) (n : node) : nat :=
  match fuel with
  | O => 0
  | S f =>
    let wl (l : link) := match l with LPtr c => S (weight_n f c) | LHash _ c => S (weight_n f c) | LBad _ => 1 | LNil => 0 end in
    S (wl (n_l0 _ _ n) + fold_right (fun e a => S (wl (elink _ _ e)) + a) 0 (n_es _ _ n))
  end.
Definition weight (fuel : nat) (m : mast K V) : nat :=
  match m_root _ _ m with LPtr c => S (weight_n fuel c) | LHash _ c => S (weight_n fuel c) | LBad _ => 1 | LNil => 0 end.

Definition diff (o : option (mast K V)) (n : mast K V) : M (list devent) :=
  let hn := S (m_height _ _ n) in
  let ho := match o with Some t => S (m_height _ _ t) | None => 0 end in
  let steps := 2 * (weight hn n + match o with Some t => weight ho t | None => 0 end) + 2 in
  diff_run steps (S (Nat.max hn ho)) (diff_init o n).

End DIFF.
