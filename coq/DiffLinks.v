(** The node diff (C07): the link events of the diff machine.  Every name reported as added is a
    name of the new version, and every name the new version reaches and the old one does not is
    reported (and symmetrically for removed).  Lemma file. *)
From Coq Require Import List NArith ZArith Lia Bool Arith.
From Mast Require Import Prim Tree KeyOrder Diff Erase Build Spec Canon Links Level Inv DiffSpec.
Import ListNotations.

Section DIFFLINKS.
Variables K V : Type.
Variable cmp : K -> K -> comparison.
Variable veq : V -> V -> bool.
Variable layer : K -> nat.
Notation node := (node K V).
Notation link := (link K V).
Notation entry := (entry K V).
Notation item := (item K V).
Notation stack := (stack K V).
Notation devent := (devent K V).
Notation dstate := (dstate K V).
Notation memo := (memo K V).

Variable P : name -> node -> Prop.
Hypothesis hered : forall h c, P h c -> allh K V P c.
Hypothesis Pfun : forall h a b, P h a -> P h b -> a = b.

(** * the names a tree reaches *)
Fixpoint names_n (n : node) : list name :=
  match n with
  | Node _ _ l0 es =>
      (match l0 with LNil => [] | LPtr c => names_n c | LHash h c => h :: names_n c | LBad h => [h] end) ++
      (fix go (es : list entry) : list name :=
         match es with
         | [] => []
         | (k, v, l) :: r =>
             (match l with LNil => [] | LPtr c => names_n c | LHash h c => h :: names_n c | LBad h => [h] end) ++ go r
         end) es
  end.
Definition names_l (l : link) : list name :=
  match l with LNil => [] | LPtr c => names_n c | LHash h c => h :: names_n c | LBad h => [h] end.
Definition lname (l : link) : list name :=
  match l with LHash h _ => [h] | LBad h => [h] | _ => [] end.
Definition names_item (it : item) : list name := match it with ILink _ _ l => names_l l | IYield _ _ _ _ => [] end.
Definition names_st (st : stack) : list name := flat_map names_item st.

Lemma names_n_eq d s l0 (es : list entry) :
  names_n (Node d s l0 es) = names_l l0 ++ flat_map (fun e : entry => names_l (elink _ _ e)) es.
Proof.
  cbn [names_n]. f_equal. induction es as [|[[k v] l] r IH]; [reflexivity|]. cbn [flat_map elink snd]. rewrite <- IH. reflexivity.
Qed.

Lemma names_st_app a b : names_st (a ++ b) = names_st a ++ names_st b.
Proof. unfold names_st. apply flat_map_app. Qed.
Lemma names_st_cons it st : names_st (it :: st) = names_item it ++ names_st st.
Proof. reflexivity. Qed.
Lemma names_link_item l : names_st (link_item _ _ l) = names_l l.
Proof. destruct l; cbn; rewrite ?app_nil_r; reflexivity. Qed.
Lemma names_items_of n : names_st (items_of _ _ n) = names_n n.
Proof.
  destruct n as [d s l0 es]. rewrite names_n_eq. unfold items_of. cbn [n_l0 n_es]. rewrite names_st_app, names_link_item. f_equal.
  induction es as [|e r IH]; [reflexivity|]. cbn [flat_map]. rewrite names_st_app, names_st_cons, names_link_item. cbn [names_item app]. f_equal. exact IH.
Qed.

Lemma load_names (l : link) : okp (load _ _ l) (fun n => names_l l = lname l ++ names_n n).
Proof. intros t n E. destruct l; cbn in E; inversion E; subst; reflexivity. Qed.

Lemma names_noes (n : node) : n_es _ _ n = [] -> names_n n = names_l (n_l0 _ _ n).
Proof. destruct n as [d s l0 es]. cbn [n_es n_l0]. intros ->. rewrite names_n_eq. cbn [flat_map]. apply app_nil_r. Qed.

Lemma link_eq_names lo ln : allh_l K V P lo -> allh_l K V P ln -> link_eq _ _ lo ln = true -> names_l lo = names_l ln.
Proof.
  intros Ho Hn E. destruct lo as [|a|h a|h], ln as [|b|h' b|h']; cbn [link_eq] in E; try discriminate; try (inversion Ho; fail); try (inversion Hn; fail).
  apply bytes_eqb_eq in E. subst h'. inversion Ho; subst. inversion Hn; subst. cbn [names_l]. f_equal. f_equal. eapply Pfun; eassumption.
Qed.
Lemma link_eq_lname (lo ln : link) : link_eq _ _ lo ln = true -> lname lo = lname ln.
Proof.
  destruct lo as [|a|h a|h], ln as [|b|h' b|h']; cbn [link_eq]; intros E; try discriminate; apply bytes_eqb_eq in E; subst; reflexivity.
Qed.

(** * the memo holds reported links only *)
Definition oname (a : option link) : list name := match a with Some l => lname l | None => [] end.
Definition minv (m : memo) (R : list name) : Prop := forall i l, memo_get _ _ m i = Some l -> incl (lname l) R.

Lemma note_inv fuel (m : memo) (l : link) R : minv m R ->
  okp (note _ _ layer fuel m l) (fun r => minv (snd r) (R ++ oname (fst r)) /\ incl (lname l) (R ++ oname (fst r)) /\ incl (oname (fst r)) (lname l)).
Proof.
  intros Hm t [a m'] E. unfold note in E. destruct (notified K V layer fuel m l) as [t' [b m'']] eqn:En. inversion E; subst. clear E. cbn [fst snd].
  unfold notified in En. destruct (first_key_layer K V layer fuel l) as [t0 [kh| | |]].
  - destruct (memo_get _ _ m kh) as [l'|] eqn:Eg.
    + destruct (link_eq _ _ l' l) eqn:El; inversion En; subst; cbn [oname].
      * rewrite app_nil_r. split; [exact Hm|]. split; [|intros x []]. rewrite <- (link_eq_lname _ _ El). exact (Hm _ _ Eg).
      * split; [|split; [apply incl_appr, incl_refl|apply incl_refl]]. intros i l2. cbn [memo_get]. destruct (Nat.eqb i kh); intros H.
        -- inversion H; subst. apply incl_appr, incl_refl.
        -- apply incl_appl. exact (Hm _ _ H).
    + inversion En; subst; cbn [oname]. split; [|split; [apply incl_appr, incl_refl|apply incl_refl]]. intros i l2. cbn [memo_get]. destruct (Nat.eqb i kh); intros H.
      * inversion H; subst. apply incl_appr, incl_refl.
      * apply incl_appl. exact (Hm _ _ H).
  - inversion En; subst; cbn [oname]. split; [|split; [apply incl_appr, incl_refl|apply incl_refl]]. intros i l2 H. apply incl_appl. exact (Hm _ _ H).
  - inversion En; subst; cbn [oname]. split; [|split; [apply incl_appr, incl_refl|apply incl_refl]]. intros i l2 H. apply incl_appl. exact (Hm _ _ H).
  - inversion En; subst; cbn [oname]. split; [|split; [apply incl_appr, incl_refl|apply incl_refl]]. intros i l2 H. apply incl_appl. exact (Hm _ _ H).
Qed.

Lemma minv_mono (m : memo) R X : minv m R -> minv m (R ++ X).
Proof. intros H i l E. apply incl_appl. exact (H i l E). Qed.
Lemma lname_sub (l : link) : incl (lname l) (names_l l).
Proof. destruct l; cbn; intros x Hx; try contradiction; destruct Hx as [<-|[]]; left; reflexivity. Qed.

(** * the invariant of the machine *)
Variables NO NN : list name.   (* the names the old and the new root reach *)

Record linv (s : dstate) (Ra Rr : list name) : Prop := {
  li_old : incl (names_st (d_old _ _ s)) NO;
  li_new : incl (names_st (d_new _ _ s)) NN;
  li_cn : incl NN (Ra ++ names_st (d_new _ _ s) ++ NO);
  li_co : incl NO (Rr ++ names_st (d_old _ _ s) ++ NN);
  li_mn : minv (d_mn _ _ s) Ra;
  li_mo : minv (d_mo _ _ s) Rr;
  li_ra : incl Ra NN;
  li_rr : incl Rr NO }.

Definition ad (e : devent) : list name := match e with DLinks _ _ _ a => oname a | _ => [] end.
Definition rm (e : devent) : list name := match e with DLinks _ _ r _ => oname r | _ => [] end.

Ltac inc :=
  let x := fresh "x" in let Hx := fresh "Hx" in
  unfold incl in *; intros x Hx;
  repeat match goal with H : forall a : name, In a _ -> In a _ |- _ => specialize (H x) end;
  rewrite ?in_app_iff in *; cbn [In] in *; tauto.

Ltac fin :=
  constructor; cbn [d_old d_new d_mo d_mn snd fst ad rm oname]; rewrite ?app_nil_r;
  rewrite ?names_st_app, ?names_st_cons, ?names_items_of, ?names_link_item in *; cbn [names_item names_st flat_map] in *; rewrite ?app_nil_r in *;
  try assumption; try (apply minv_mono; assumption).

Lemma one_links fuel (s : dstate) Ra Rr : wf K V P s -> linv s Ra Rr ->
  okp (diff_one _ _ cmp veq layer fuel s) (fun r => linv (snd r) (Ra ++ ad (fst r)) (Rr ++ rm (fst r))).
Proof.
  destruct s as [mo mn old new]. intros [Wo Wn] [Ho Hn Hcn Hco Hmn Hmo Hra Hrr]. cbn [d_old d_new d_mo d_mn] in *.
  destruct old as [|[lo|ko vo] os], new as [|[ln|kn vn] ns]; cbn [diff_one d_old d_new d_mo d_mn].
  - apply okp_ret. fin.
  - apply (okp_bind _ _ _ _ (note_inv fuel mn ln Ra Hmn)). intros [a mn'] (Hm' & Hin & Hsub). cbn [fst snd] in *.
    apply (okp_bind _ _ _ _ (load_names ln)). intros n Hnm. apply okp_ret. fin; rewrite ?Hnm in *; inc.
  - apply okp_ret. fin.
  - apply (okp_bind _ _ _ _ (note_inv fuel mo lo Rr Hmo)). intros [r mo'] (Hm' & Hin & Hsub). cbn [fst snd] in *.
    apply (okp_bind _ _ _ _ (load_names lo)). intros n Hnm. apply okp_ret. fin; rewrite ?Hnm in *; inc.
  - inversion Wo as [|x y Hit Wos]; subst; cbn [item_ok] in Hit; destruct Hit as [Hlo Hno]. inversion Wn as [|x y Hit Wns]; subst; cbn [item_ok] in Hit; destruct Hit as [Hln Hnn].
    destruct (link_eq _ _ lo ln) eqn:Eq.
    { apply okp_ret. pose proof (link_eq_names _ _ Hlo Hln Eq) as En. fin; rewrite ?En in *; inc. }
    pose proof (lname_sub lo) as Slo. pose proof (lname_sub ln) as Sln.
    apply (okp_bind _ _ _ _ (note_inv fuel mo lo Rr Hmo)). intros [r mo'] (Hmo' & Hino & Hsubo). cbn [fst snd] in *.
    apply (okp_bind _ _ _ _ (note_inv fuel mn ln Ra Hmn)). intros [a mn'] (Hmn' & Hinn & Hsubn). cbn [fst snd] in *.
    apply (okp_bind _ _ _ _ (load_names lo)). intros no Hnmo.
    destruct (n_es _ _ no) as [|eo reo] eqn:Eo.
    { apply okp_ret. rewrite (names_noes _ Eo) in Hnmo. fin; rewrite ?Hnmo in *; inc. }
    apply (okp_bind _ _ _ _ (load_names ln)). intros nn Hnmn.
    destruct (n_es _ _ nn) as [|en ren] eqn:En.
    { apply okp_ret. rewrite (names_noes _ En) in Hnmn. fin; rewrite ?Hnmn in *; inc. }
    apply okp_tick. destruct (cmp (ekey _ _ eo) (ekey _ _ en)); apply okp_ret; fin; rewrite ?Hnmo, ?Hnmn in *; inc.
  - apply (okp_bind _ _ _ _ (note_inv fuel mo lo Rr Hmo)). intros [r mo'] (Hm' & Hin & Hsub). cbn [fst snd] in *.
    apply (okp_bind _ _ _ _ (load_names lo)). intros n Hnm. apply okp_ret. fin; rewrite ?Hnm in *; inc.
  - apply okp_ret. fin.
  - apply (okp_bind _ _ _ _ (note_inv fuel mn ln Ra Hmn)). intros [a mn'] (Hm' & Hin & Hsub). cbn [fst snd] in *.
    apply (okp_bind _ _ _ _ (load_names ln)). intros n Hnm. apply okp_ret. fin; rewrite ?Hnm in *; inc.
  - apply okp_tick. destruct (cmp ko kn); [destruct (veq vo vn)|..]; apply okp_ret; fin.
Qed.

Lemma one_done fuel (s : dstate) :
  okp (diff_one _ _ cmp veq layer fuel s) (fun r => fst r = DDone _ _ -> d_old _ _ s = [] /\ d_new _ _ s = []).
Proof.
  destruct s as [mo mn old new].
  destruct old as [|[lo|ko vo] os], new as [|[ln|kn vn] ns]; cbn [diff_one d_old d_new d_mo d_mn].
  1: (apply okp_ret; intros _; split; reflexivity).
  all: repeat first
    [ apply okp_ret; cbn [fst]; let HH := fresh in intros HH; discriminate HH
    | apply okp_tick
    | apply (okp_bind _ _ (fun _ => True)); [intros ? ? _; exact I | first [intros [? ?] _ | intros ? _]]
    | match goal with |- okp (match ?x with _ => _ end) _ => destruct x end ].
Qed.

Definition ads (r : list devent) : list name := flat_map ad r.
Definition rms (r : list devent) : list name := flat_map rm r.

Definition lpost (Ra Rr : list name) (r : list devent) : Prop :=
  incl (Ra ++ ads r) NN /\ incl NN (Ra ++ ads r ++ NO) /\ incl (Rr ++ rms r) NO /\ incl NO (Rr ++ rms r ++ NN).

Hypothesis cmp_refl : forall k, cmp k k = Eq.
Hypothesis veq_refl : forall v, veq v v = true.

Lemma run_links : forall steps fuel (s : dstate) Ra Rr, wf K V P s -> linv s Ra Rr ->
  okp (diff_run _ _ cmp veq layer steps fuel s) (lpost Ra Rr).
Proof.
  induction steps as [|st IH]; intros fuel s Ra Rr W L; [apply okp_nofuel|]. cbn [diff_run].
  apply (okp_bind _ _ (fun r => wf K V P (snd r) /\ linv (snd r) (Ra ++ ad (fst r)) (Rr ++ rm (fst r)) /\
                                (fst r = DDone _ _ -> d_old _ _ s = [] /\ d_new _ _ s = []))).
  { intros t r E. destruct (one_ok K V cmp veq layer cmp_refl veq_refl P hered Pfun fuel s W) as (t' & r' & E' & W' & _).
    rewrite E in E'. assert (Hr : r = r') by congruence. subst r'. split; [exact W'|]. split; [exact (one_links fuel s Ra Rr W L t r E)|exact (one_done fuel s t r E)]. }
  intros [e s'] (W' & L' & Hd). cbn [fst snd] in *.
  assert (Hcons : forall e0, okp (diff_run _ _ cmp veq layer st fuel s') (lpost (Ra ++ ad e0) (Rr ++ rm e0)) ->
            okp (let* r := diff_run _ _ cmp veq layer st fuel s' in ret (e0 :: r)) (lpost Ra Rr)).
  { intros e0 H. apply (okp_bind _ _ _ _ H). intros r (H1 & H2 & H3 & H4). apply okp_ret. unfold lpost, ads, rms in *. cbn [flat_map].
    rewrite <- !app_assoc in *. repeat split; assumption. }
  assert (Hskip : ad e = [] -> rm e = [] -> okp (diff_run _ _ cmp veq layer st fuel s') (lpost Ra Rr)).
  { intros Ea Er. rewrite Ea, Er, !app_nil_r in L'. apply IH; assumption. }
  destruct e as [|a rmv k av rv|r a|].
  - apply Hskip; reflexivity.
  - apply Hcons. apply IH; assumption.
  - destruct r as [r|]; [apply Hcons; apply IH; assumption|]. destruct a as [a|]; [apply Hcons; apply IH; assumption|].
    apply Hskip; reflexivity.
  - apply okp_ret. destruct (Hd eq_refl) as [Eo En]. destruct L as [Ho Hn Hcn Hco Hmn Hmo Hra Hrr]. rewrite Eo in *. rewrite En in *.
    unfold lpost, ads, rms. cbn [flat_map names_st] in *. rewrite !app_nil_r. cbn [app] in *. repeat split; assumption.
Qed.

End DIFFLINKS.

Section DIFFLINKS_TOP.
Variables K V : Type.
Variable cmp : K -> K -> comparison.
Variable veq : V -> V -> bool.
Variable layer : K -> nat.
Hypothesis cmp_refl : forall k, cmp k k = Eq.
Hypothesis veq_refl : forall v, veq v v = true.
Variable P : name -> node K V -> Prop.
Hypothesis hered : forall h c, P h c -> allh K V P c.
Hypothesis Pfun : forall h a b, P h a -> P h b -> a = b.

Definition onames (o : option (mast K V)) : list name :=
  match o with Some t => names_l K V (m_root _ _ t) | None => [] end.

Lemma init_names (o : option (mast K V)) : names_st K V (init_stack _ _ o) = onames o.
Proof.
  destruct o as [t|]; [|reflexivity]. cbn [init_stack onames]. unfold root_is_empty.
  destruct (m_root _ _ t) as [|c|h c|h] eqn:E; cbn [names_st flat_map names_item names_l]; rewrite ?app_nil_r; try reflexivity.
  destruct (is_empty _ _ c) eqn:Ee; cbn [names_st flat_map names_item names_l]; rewrite ?app_nil_r; try reflexivity.
  destruct c as [d s l0 es]. cbn [is_empty] in Ee. destruct l0; try discriminate. destruct es; [reflexivity|discriminate].
Qed.

(** the names reported as added / removed by a whole diff *)
Theorem diff_links (o : option (mast K V)) (n : mast K V) :
  allh_l K V P (m_root _ _ n) -> fitsl_of K V (fits K V (S (m_height _ _ n))) (m_root _ _ n) ->
  (forall t, o = Some t -> allh_l K V P (m_root _ _ t) /\ fitsl_of K V (fits K V (S (m_height _ _ t))) (m_root _ _ t)) ->
  oks (diff _ _ cmp veq layer o n)
      (fun r => let NN := names_l K V (m_root _ _ n) in let NO := onames o in
                incl (ads K V r) NN /\ incl NN (ads K V r ++ NO) /\ incl (rms K V r) NO /\ incl NO (rms K V r ++ NN)).
Proof.
  intros Hn Fn Ho.
  destruct (diff_entries K V cmp veq layer cmp_refl veq_refl P hered Pfun o n Hn Fn Ho) as (t & r & E & _).
  exists t, r. split; [exact E|]. cbn zeta.
  assert (W : wf K V P (diff_init _ _ o n)).
  { split; cbn [diff_init d_old d_new]; apply init_wf; [intros t0 E0; apply (Ho t0 E0)|intros t0 E0; inversion E0; subst; exact Hn]. }
  assert (L : linv K V (onames o) (names_l K V (m_root _ _ n)) (diff_init _ _ o n) [] []).
  { constructor; cbn [diff_init d_old d_new d_mo d_mn app]; rewrite ?init_names; cbn [onames].
    - apply incl_refl.
    - apply incl_refl.
    - apply incl_appl, incl_refl.
    - apply incl_appl, incl_refl.
    - intros i l H. discriminate H.
    - intros i l H. discriminate H.
    - intros x [].
    - intros x []. }
  unfold diff in E.
  exact (run_links K V cmp veq layer P hered Pfun (onames o) (names_l K V (m_root _ _ n)) cmp_refl veq_refl _ _ _ [] [] W L t r E).
Qed.
End DIFFLINKS_TOP.
