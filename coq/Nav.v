(** SeekIter (as repaired): iterating from a probe key yields exactly the entries not smaller than
    the probe, in order.  Lemma file. *)
From Coq Require Import List NArith ZArith Lia Bool Sorted.
From Mast Require Import Prim Tree Erase Build Spec Canon Level Inv.
Import ListNotations.

Section NAV.
Variables K V : Type.
Variable cmp : K -> K -> comparison.
Variable layer : K -> nat.
Hypothesis cmp_eq : forall a b, cmp a b = Eq <-> a = b.
Hypothesis cmp_antisym : forall a b, cmp b a = CompOpp (cmp a b).
Hypothesis cmp_trans : forall a b c, cmp a b = Lt -> cmp b c = Lt -> cmp a c = Lt.

Notation node := (node K V).
Notation link := (link K V).
Notation entry := (entry K V).
Notation kv := (K * V)%type.
Notation seg := (seg K V).
Notation pseg := (pseg K V).
Notation segs := (segs K V layer).
Notation bnode := (bnode K V layer).
Notation build := (build K V layer).
Notation subl := (subl K V layer).
Notation erase_n := (erase_n K V).
Notation erase_l := (erase_l K V).
Notation erase_e := (erase_e K V).
Notation mk_es := (mk_es K V).
Notation sorted := (ssorted K V cmp).
Notation all_lt := (all_lt K V cmp).
Notation all_ge := (all_ge K V cmp).
Notation lt := (Canon.lt K cmp).

Lemma fits_le f f' (n : node) : f <= f' -> fits K V f n -> fits K V f' n.
Proof. induction 1 as [|m _ IH]; intros H; [exact H|]. apply fits_mono. apply IH. exact H. Qed.

(* iterating the child behind a link of a canonical node yields its run *)
Lemma iter_sub d f (c : link) (s : seg) :
  d <= f -> erase_l c = subl d s -> (d = 0 -> s = []) ->
  oks (match c with LNil => ret [] | _ => let* c0 := load _ _ c in iter_node _ _ f c0 end) (fun r => r = s).
Proof.
  intros Hf Hc H0. destruct d as [|d'].
  - cbn [Build.subl] in Hc. apply erase_l_nil in Hc. subst c. apply oks_ret. symmetry. apply H0. reflexivity.
  - cbn [Build.subl] in Hc. destruct s as [|x s'].
    + rewrite build_nil in Hc. apply erase_l_nil in Hc. subst c. apply oks_ret. reflexivity.
    + destruct (load_build K V layer d' _ _ Hc ltac:(discriminate)) as [Lc Nc].
      assert (Hit : forall c0, erase_n c0 = bnode d' (x :: s') -> oks (iter_node _ _ f c0) (fun r => r = x :: s')).
      { intros c0 Hc0. pose proof (fits_bnode K V layer _ _ _ Hc0) as Hfit.
        assert (Hfit' : fits K V f c0) by (apply (fits_le (S d') f); [lia|exact Hfit]).
        eapply oks_weaken; [exact (iter_fits K V f c0 Hfit')|]. intros r ->. exact (canon_list K V layer _ _ _ Hc0). }
      destruct c as [|c1|h1 c1|h1]; [contradiction|..];
        (apply (oks_bind _ _ _ _ Lc); intros c0 Hc0; exact (Hit c0 Hc0)).
Qed.

Lemma level0_first_run (l : seg) s0 ps : segs 0 l = (s0, ps) -> s0 = [].
Proof. rewrite segs_0. intros E. inversion E. reflexivity. Qed.

Lemma runs_level0 (l : seg) : Forall (fun p : pseg => pseg_of _ _ p = []) (snd (segs 0 l)).
Proof. rewrite segs_0. cbn [snd]. induction l; constructor; [reflexivity|assumption]. Qed.

(* the entries and runs to the right of the cut *)
Lemma iter_rest d f : forall (ps : list pseg) (rs : list entry),
  d <= f -> map erase_e rs = mk_es (subl d) ps -> (d = 0 -> Forall (fun p : pseg => pseg_of _ _ p = []) ps) ->
  oks ((fix go (es : list entry) : M (list kv) :=
          match es with
          | [] => ret []
          | (k', v, l) :: r =>
              let* x := (match l with LNil => ret [] | _ => let* c := load _ _ l in iter_node _ _ f c end) in
              let* y := go r in ret ((k', v) :: x ++ y)
          end) rs)
      (fun r => r = flat_map (fun p : pseg => (pkey _ _ p, pval _ _ p) :: pseg_of _ _ p) ps).
Proof.
  induction ps as [|[[k v] s] ps IH]; intros rs Hf Hrs H0.
  - destruct rs; [|discriminate]. apply oks_ret. reflexivity.
  - destruct rs as [|[[k' v'] l'] rs]; [discriminate|].
    unfold Build.mk_es in Hrs. cbn [map] in Hrs. unfold Erase.erase_e at 1 in Hrs.
    cbn [ekey eval elink pkey pval pseg_of fst snd] in Hrs. injection Hrs as Hk' Hv' Hl' Hrs'. subst k' v'.
    apply (oks_bind _ _ _ _ (iter_sub d f l' s Hf Hl' ltac:(intros E; specialize (H0 E); inversion H0; assumption))).
    intros x ->.
    apply (oks_bind _ _ _ _ (IH rs Hf Hrs' ltac:(intros E; specialize (H0 E); inversion H0; assumption))).
    intros y ->. apply oks_ret. reflexivity.
Qed.

Lemma sorted_first_pivot_head d (b : seg) k s0b (psb : list pseg) p :
  sorted b -> all_ge b k -> segs d b = (s0b, p :: psb) -> pkey _ _ p = k -> s0b = [].
Proof.
  intros Hs Hge E Hk. subst k. destruct s0b as [|x r]; [reflexivity|]. exfalso.
  pose proof (segs_flat K V layer d b) as F. rewrite E in F. cbn [fst snd] in F. unfold Build.flat in F. cbn [flat_map app] in F.
  rewrite <- F in Hs, Hge. inversion Hs as [|? ? _ Hall]; subst.
  rewrite Forall_app in Hall. destruct Hall as [_ Hall]. inversion Hall as [|? ? Hx _]; subst. cbn [fst] in Hx.
  inversion Hge as [|? ? Hgx _]; subst. apply Hgx. exact Hx.
Qed.

Lemma seek_spec : forall d fuel n a b k,
  d < fuel -> erase_n n = bnode d (a ++ b) -> all_lt a k -> all_ge b k -> sorted (a ++ b) ->
  oks (seek_node _ _ cmp fuel k n) (fun r => r = b).
Proof.
  induction d as [d IH] using lt_wf_ind; intros fuel n a b k Hf He Ha Hb Hs.
  destruct fuel as [|f]; [lia|]. cbn [seek_node]. apply oks_tick.
  destruct (segs d a) as [s0a psa] eqn:Ea. destruct (segs d b) as [s0b psb] eqn:Eb.
  destruct (set_last_seg K V s0a psa (last_seg K V s0a psa ++ s0b)) as [s0' psa'] eqn:Es.
  destruct (cut_node K V cmp layer _ _ _ _ _ _ _ _ _ _ _ He Ha Hb Ea Eb Es) as (H0 & Hl & Hr).
  destruct (span_lt _ _ cmp k (n_es _ _ n)) as [les rs]. cbn [fst snd] in Hl, Hr.
  pose proof (segs_Forall K V layer (fun x => ~ lt (fst x) k) d b Hb) as [Hgb0 Hgb]. rewrite Eb in Hgb0, Hgb. cbn [fst snd] in Hgb0, Hgb.
  pose proof (segs_Forall K V layer (fun x => lt (fst x) k) d a Ha) as [Hla0 Hla]. rewrite Ea in Hla0, Hla. cbn [fst snd] in Hla0, Hla.
  set (la := last_seg K V s0a psa) in *.
  assert (Hla' : all_lt la k) by (apply last_seg_Forall; assumption).
  assert (Hchild : erase_l (last_link _ _ (n_l0 _ _ n) les) = subl d (la ++ s0b)).
  { rewrite last_link_erase, H0, Hl, last_link_mk_es.
    pose proof (last_seg_set K V s0a psa (la ++ s0b)) as Q. rewrite Es in Q. rewrite Q. reflexivity. }
  destruct (ssorted_app_inv K V cmp _ _ Hs) as [Ssa Ssb].
  assert (H0runs : d = 0 -> Forall (fun p : pseg => pseg_of _ _ p = []) psb).
  { intros ->. pose proof (runs_level0 b) as Q. rewrite Eb in Q. exact Q. }
  assert (Hflat : s0b ++ flat_map (fun p : pseg => (pkey _ _ p, pval _ _ p) :: pseg_of _ _ p) psb = b).
  { pose proof (segs_flat K V layer d b) as F. rewrite Eb in F. exact F. }
  (* the part before the first remaining pivot *)
  assert (Hfirst : oks (if hits _ _ cmp k rs then ret []
                        else match last_link _ _ (n_l0 _ _ n) les with
                             | LNil => ret []
                             | l => let* c := load _ _ l in seek_node _ _ cmp f k c
                             end) (fun r => r = s0b)).
  { destruct (hits _ _ cmp k rs) eqn:Eh.
    - apply oks_ret. rewrite <- (hits_erase K V cmp), Hr in Eh. destruct psb as [|p psb']; [discriminate|].
      cbn [Build.mk_es map hits ekey fst] in Eh. apply (keq_true K cmp cmp_eq) in Eh. symmetry.
      exact (sorted_first_pivot_head d b k s0b psb' p Ssb Hb Eb Eh).
    - destruct d as [|d'].
      + cbn [Build.subl] in Hchild. apply erase_l_nil in Hchild. rewrite Hchild. apply oks_ret.
        symmetry. exact (level0_first_run _ _ _ Eb).
      + cbn [Build.subl] in Hchild. destruct (la ++ s0b) as [|x r] eqn:E.
        * rewrite build_nil in Hchild. apply erase_l_nil in Hchild. rewrite Hchild. apply oks_ret.
          apply app_eq_nil in E. symmetry. exact (proj2 E).
        * destruct (load_build K V layer d' _ _ Hchild ltac:(discriminate)) as [Lc Nc].
          assert (Hsl : sorted (la ++ s0b)).
          { destruct (last_seg_suffix K V layer _ _ _ _ Ea) as (a1 & Ea1). fold la in Ea1.
            rewrite <- Hflat, Ea1 in Hs. rewrite <- !app_assoc in Hs.
            apply (ssorted_app_inv K V cmp) in Hs. destruct Hs as [_ Hs]. rewrite app_assoc in Hs.
            apply (ssorted_app_inv K V cmp) in Hs. exact (proj1 Hs). }
          destruct (last_link _ _ (n_l0 _ _ n) les) as [|c1|h1 c1|h1]; [contradiction|..];
            (apply (oks_bind _ _ _ _ Lc); intros c0 Hc0; cbn beta in Hc0; rewrite <- E in Hc0;
             apply (IH d') with (a := la) (b := s0b); [lia|lia|exact Hc0|exact Hla'|exact Hgb0|exact Hsl]). }
  apply (oks_bind _ _ _ _ Hfirst). intros x ->.
  apply (oks_bind _ _ _ _ (iter_rest d f psb rs ltac:(lia) Hr H0runs)). intros y ->.
  apply oks_ret. exact Hflat.
Qed.

(** the entries not smaller than k *)
Definition from_key (k : K) (l : seg) : seg := filter (fun x : kv => negb (klt _ cmp (fst x) k)) l.

Lemma from_key_cut a b k : all_lt a k -> all_ge b k -> from_key k (a ++ b) = b.
Proof.
  intros Ha Hb. unfold from_key. rewrite filter_app.
  replace (filter _ a) with (@nil kv).
  - cbn [app]. induction Hb as [|x r Hx _ IH]; [reflexivity|]. cbn [filter].
    replace (klt _ cmp (fst x) k) with false; [cbn [negb]; f_equal; exact IH|].
    symmetry. destruct (klt _ cmp (fst x) k) eqn:E; [|reflexivity]. exfalso. apply Hx. unfold Canon.lt, klt in *. destruct (cmp (fst x) k); congruence.
  - induction Ha as [|x r Hx _ IH]; [reflexivity|]. cbn [filter].
    replace (klt _ cmp (fst x) k) with true; [cbn [negb]; exact IH|].
    symmetry. unfold Canon.lt in Hx. unfold klt. rewrite Hx. reflexivity.
Qed.

Lemma cut_ge : forall l k, sorted l -> exists a b, l = a ++ b /\ all_lt a k /\ all_ge b k.
Proof.
  intros l k Hs. destruct (sorted_cut K V cmp cmp_eq cmp_antisym cmp_trans k l Hs) as [a b El Ha Hb|a b v El Ha Hb].
  - exists a, b. split; [exact El|]. split; [exact Ha|]. apply all_gt_ge; [exact cmp_antisym|exact Hb].
  - exists a, ((k, v) :: b). split; [exact El|]. split; [exact Ha|]. apply all_ge_present; [exact cmp_eq|exact cmp_antisym|exact Hb].
Qed.

Theorem seek_iter_ok bf m l k : canon K V cmp layer bf m l ->
  oks (seek_iter _ _ cmp m k) (fun r => r = from_key k l).
Proof.
  intros C. destruct (cn_root _ _ _ _ _ _ _ C) as (n & Hn & He). unfold seek_iter.
  destruct (cut_ge l k (cn_sorted _ _ _ _ _ _ _ C)) as (a & b & El & Ha & Hb).
  assert (Hmain : oks (seek_node _ _ cmp (S (m_height _ _ m)) k n) (fun r => r = from_key k l)).
  { rewrite El, from_key_cut by assumption. rewrite El in He.
    apply (seek_spec (m_height _ _ m)) with (a := a); [lia|exact He|exact Ha|exact Hb|]. rewrite <- El. exact (cn_sorted _ _ _ _ _ _ _ C). }
  destruct (m_root _ _ m) as [|c|h c|h] eqn:Er.
  - apply oks_ret. rewrite (root_nil_list K V cmp layer _ _ _ C Er). reflexivity.
  - apply (oks_bind _ _ _ _ (load_root K V _ _ Hn ltac:(discriminate))). intros c0 ->. exact Hmain.
  - apply (oks_bind _ _ _ _ (load_root K V _ _ Hn ltac:(discriminate))). intros c0 ->. exact Hmain.
  - discriminate.
Qed.

End NAV.
