(** The order of events in the traces of Insert and Delete: every fallible Load and KeyCompare of the
    search, split and merge precedes the commit marker; after it only the layer callbacks of the
    grow loop (Insert) resp. the loads of the shrink loop (Delete) occur - which is exactly the
    recorded finding.  Read-only operations never commit.  Lemma file. *)
From Coq Require Import List NArith ZArith Lia Bool.
From Mast Require Import Prim Tree Cost.
Import ListNotations.

(** [evb phi m]: every event of m's trace satisfies phi, whatever the outcome *)
Definition evb {A} (phi : event -> Prop) (m : M A) : Prop := Forall phi (fst m).

Lemma fst_bind {A B} (m : M A) (f : A -> M B) :
  fst (bind m f) = fst m ++ match snd m with Ok a => fst (f a) | _ => [] end.
Proof. destruct m as [t [a| | |]]; cbn [bind fst snd]; try (rewrite app_nil_r; reflexivity). destruct (f a). reflexivity. Qed.

Lemma evb_ret {A} phi (a : A) : evb phi (ret a).
Proof. constructor. Qed.
Lemma evb_fail {A} phi : evb phi (@fail A).
Proof. constructor. Qed.
Lemma evb_panic {A} phi : evb phi (@panic A).
Proof. constructor. Qed.
Lemma evb_nofuel {A} phi : evb phi (@nofuel A).
Proof. constructor. Qed.
Lemma evb_bind {A B} (phi : event -> Prop) (m : M A) (f : A -> M B) : evb phi m -> (forall a, evb phi (f a)) -> evb phi (bind m f).
Proof.
  unfold evb. intros H1 H2. rewrite fst_bind. apply Forall_app. split; [exact H1|].
  destruct (snd m); try constructor. apply H2.
Qed.
Lemma evb_bind_dep {A B} (phi : event -> Prop) (m : M A) (f : A -> M B) (Q : A -> Prop) :
  evb phi m -> (forall t a, m = (t, Ok a) -> Q a) -> (forall a, Q a -> evb phi (f a)) -> evb phi (bind m f).
Proof.
  unfold evb. intros H1 HQ H2. rewrite fst_bind. apply Forall_app. split; [exact H1|].
  destruct m as [t [a| | |]]; cbn [snd]; try constructor. apply H2. exact (HQ t a eq_refl).
Qed.
Lemma evb_tick {B} (phi : event -> Prop) e (k : M B) : phi e -> evb phi k -> evb phi (bind (tick e) (fun _ => k)).
Proof. intros He H. apply evb_bind; [constructor; [exact He|constructor]|intros; exact H]. Qed.

Definition is_commit (e : event) : Prop := e = ECommit.
(* what may precede the commit: loads, key comparisons, layer callbacks *)
Definition pre_ev (e : event) : Prop := match e with ELoad _ | ECmp | ELayer => True | _ => False end.
Definition search_ev (e : event) : Prop := match e with ELoad _ | ECmp => True | _ => False end.
Definition layer_ev (e : event) : Prop := e = ELayer.
Definition load_ev (e : event) : Prop := match e with ELoad _ => True | _ => False end.

Section EVENTS.
Variables K V : Type.
Variable cmp : K -> K -> comparison.
Variable veq : V -> V -> bool.
Variable layer : K -> nat.
Notation node := (node K V).
Notation link := (link K V).
Notation entry := (entry K V).

Lemma load_search (l : link) : evb search_ev (load _ _ l).
Proof. destruct l; unfold evb; cbn; repeat constructor. Qed.
Lemma load_mem_none (phi : event -> Prop) (l : link) : in_mem K V l -> evb phi (load _ _ l).
Proof. destruct l; intros H; try contradiction; constructor. Qed.

Lemma split_events : forall fuel k (n : node), evb search_ev (split _ _ cmp fuel k n).
Proof.
  induction fuel as [|f IH]; intros k n; cbn [split]; [apply evb_nofuel|].
  apply evb_tick; [exact I|]. destruct (span_lt _ _ cmp k (n_es _ _ n)) as [les rs].
  destruct (hits _ _ cmp k rs); [apply evb_panic|].
  assert (Hon : forall l : link, evb search_ev (on_link _ _ l (nil2 K V) (split _ _ cmp f k))).
  { intros l. destruct l; cbn [on_link]; [apply evb_ret|..]; (apply evb_bind; [apply load_search|intros; apply IH]). }
  apply evb_bind; [apply Hon|]. intros [lm' tooBig]. destruct (set_last_link _ _ (n_l0 _ _ n) les lm').
  apply evb_bind; [apply Hon|]. intros [tooSmall rm']. destruct (is_nil _ _ tooSmall); [apply evb_ret|apply evb_panic].
Qed.

Lemma merge_events : forall fuel (a b : link), evb search_ev (merge _ _ fuel a b).
Proof.
  induction fuel as [|f IH]; intros a b.
  - destruct a; destruct b; cbn [merge]; try apply evb_ret; apply evb_nofuel.
  - assert (Hm : evb search_ev (let* na := load _ _ a in
                     let* nb := load _ _ b in
                     let* m := merge _ _ f (last_link _ _ (n_l0 _ _ na) (n_es _ _ na)) (n_l0 _ _ nb) in
                     let (l0', aes') := set_last_link _ _ (n_l0 _ _ na) (n_es _ _ na) m in
                     ret (LPtr (mk_dirty _ _ l0' (aes' ++ n_es _ _ nb))))).
    { apply evb_bind; [apply load_search|]. intros na. apply evb_bind; [apply load_search|]. intros nb.
      apply evb_bind; [apply IH|]. intros m. destruct (set_last_link _ _ (n_l0 _ _ na) (n_es _ _ na) m). apply evb_ret. }
    destruct a; destruct b; cbn [merge]; try apply evb_ret; exact Hm.
Qed.

Lemma ins_events : forall fuel cur target k v (n : node), evb search_ev (ins _ _ cmp veq fuel cur target k v n).
Proof.
  induction fuel as [|f IH]; intros cur target k v n; cbn [ins]; [apply evb_nofuel|].
  apply evb_tick; [exact I|]. destruct (span_lt _ _ cmp k (n_es _ _ n)) as [les rs].
  destruct (hits _ _ cmp k rs).
  - destruct (negb (Nat.eqb cur target)); [apply evb_panic|]. destruct rs as [|[[k' v'] l] rs']; [apply evb_panic|].
    destruct (veq v' v); apply evb_ret.
  - destruct (Nat.eqb cur target).
    + apply evb_bind.
      * destruct (last_link _ _ (n_l0 _ _ n) les); cbn [on_link]; [apply evb_ret|..]; (apply evb_bind; [apply load_search|intros; apply split_events]).
      * intros [ll rl]. destruct (set_last_link _ _ (n_l0 _ _ n) les ll). apply evb_ret.
    + apply evb_bind.
      * destruct (last_link _ _ (n_l0 _ _ n) les); [apply evb_ret|apply load_search..].
      * intros c. apply evb_bind; [apply IH|]. intros r. destruct r; apply evb_ret.
Qed.

Lemma del_events : forall fuel cur target k v (n : node), evb search_ev (del _ _ cmp veq fuel cur target k v n).
Proof.
  induction fuel as [|f IH]; intros cur target k v n; cbn [del]; [apply evb_nofuel|].
  apply evb_tick; [exact I|]. destruct (span_lt _ _ cmp k (n_es _ _ n)) as [les rs].
  destruct (hits _ _ cmp k rs).
  - destruct (negb (Nat.eqb cur target)); [apply evb_fail|]. destruct rs as [|[[k' v'] l] rs']; [apply evb_fail|].
    destruct (veq v' v); [|apply evb_fail]. apply evb_bind; [apply merge_events|]. intros m.
    destruct (set_last_link _ _ (n_l0 _ _ n) les m). apply evb_ret.
  - destruct (Nat.eqb cur target); [apply evb_fail|].
    assert (Hb : evb search_ev (let* c := load _ _ (last_link _ _ (n_l0 _ _ n) les) in
                     let* c' := del _ _ cmp veq f (cur - 1) target k v c in
                     let (l0', les') := set_last_link _ _ (n_l0 _ _ n) les (link_of _ _ c') in
                     ret (mk_dirty _ _ l0' (les' ++ rs)))).
    { apply evb_bind; [apply load_search|]. intros c. apply evb_bind; [apply IH|]. intros c'.
      destruct (set_last_link _ _ (n_l0 _ _ n) les (link_of _ _ c')). apply evb_ret. }
    destruct (last_link _ _ (n_l0 _ _ n) les); [apply evb_fail|exact Hb..].
Qed.

(** the grow loop after the commit: only layer callbacks (the root is an in-memory pointer) *)
Lemma can_grow_events h (es : list entry) : evb layer_ev (can_grow _ _ layer h es).
Proof.
  induction es as [|e r IH]; cbn [can_grow]; [apply evb_ret|]. apply evb_tick; [reflexivity|].
  destruct (Nat.ltb h (layer (ekey _ _ e))); [apply evb_ret|exact IH].
Qed.
Lemma ticks_events e n : evb (fun x => x = e) (ticks e n).
Proof. induction n as [|n IH]; cbn [ticks]; [apply evb_ret|]. apply evb_tick; [reflexivity|exact IH]. Qed.

Lemma grow_mem (m m' : mast K V) t : grow _ _ layer m = (t, Ok m') -> in_mem K V (m_root _ _ m').
Proof.
  unfold grow. intros E. apply bind_inv in E. destruct E as (t1 & n & t2 & _ & E & _).
  apply bind_inv in E. destruct E as (t3 & [] & t4 & _ & E & _). unfold ret in E. inversion E. exact I.
Qed.

Lemma grow_loop_events : forall fuel root0 (m : mast K V), in_mem K V (m_root _ _ m) -> evb layer_ev (grow_loop _ _ layer fuel root0 m).
Proof.
  induction fuel as [|f IH]; intros root0 m Hm; cbn [grow_loop]; [apply evb_nofuel|].
  destruct (N.leb (m_grow_after _ _ m) (m_size _ _ m)); [|apply evb_ret].
  apply evb_bind; [apply can_grow_events|]. intros cg. destruct cg; [|apply evb_ret].
  apply (evb_bind_dep _ _ _ (fun m' => in_mem K V (m_root _ _ m'))).
  - unfold grow. apply evb_bind; [apply load_mem_none; exact Hm|]. intros n.
    apply evb_bind; [exact (ticks_events ELayer _)|]. intros _. apply evb_ret.
  - intros t m' E. exact (grow_mem _ _ _ E).
  - intros m' Hm'. apply IH. exact Hm'.
Qed.

(** the shape of Insert's trace: search events (one layer callback first), then possibly the
    commit followed by layer callbacks only *)
Definition ins_post (r : ins_res K V) (m : mast K V) : M (mast K V) :=
  match r with
  | INoop => ret m
  | IUpd n' => tick ECommit >> ret (root_of_node _ _ m n')
  | IIns n' => tick ECommit >> let* m2 := grow_loop _ _ layer max_layer_fuel n' (root_of_node _ _ m n') in ret (set_size _ _ m2 (m_size _ _ m2 + 1))
  end.

Theorem insert_trace_shape (m : mast K V) k v :
  exists pre post, fst (insert _ _ cmp veq layer m k v) = pre ++ post /\
                   Forall pre_ev pre /\ (post = [] \/ exists g, post = ECommit :: g /\ Forall layer_ev g).
Proof.
  unfold insert.
  set (first := match m_root _ _ m with LNil => ret (fresh_node K V) | r => load _ _ r end).
  set (body := fun n => ins _ _ cmp veq (S (m_height _ _ m)) (m_height _ _ m) (Nat.min (layer k) (m_height _ _ m)) k v n).
  change (exists pre post, fst (tick ELayer >> (let* n := first in let* r := body n in ins_post r m)) = pre ++ post /\
                           Forall pre_ev pre /\ (post = [] \/ exists g, post = ECommit :: g /\ Forall layer_ev g)).
  rewrite fst_bind. cbn [tick fst snd].
  rewrite fst_bind.
  assert (Hfirst : Forall pre_ev (fst first)).
  { unfold first. destruct (m_root _ _ m); [constructor|..]; (eapply Forall_impl; [|apply load_search]; intros e He; destruct e; try contradiction; exact I). }
  destruct (snd first) as [n| | |] eqn:Esf.
  2-4: (exists ([ELayer] ++ fst first ++ []), []; rewrite !app_nil_r; split; [reflexivity|]; split; [constructor; [exact I|exact Hfirst]|left; reflexivity]).
  rewrite fst_bind.
  assert (Hins : Forall pre_ev (fst (body n))).
  { eapply Forall_impl; [|apply ins_events]. intros e He; destruct e; try contradiction; exact I. }
  destruct (snd (body n)) as [r| | |] eqn:Esb.
  2-4: (exists ([ELayer] ++ fst first ++ fst (body n) ++ []), []; rewrite !app_nil_r; split; [reflexivity|]; split;
        [constructor; [exact I|apply Forall_app; split; assumption]|left; reflexivity]).
  exists ([ELayer] ++ fst first ++ fst (body n)), (fst (ins_post r m)).
  split; [rewrite <- !app_assoc; reflexivity|]. split; [constructor; [exact I|apply Forall_app; split; assumption]|].
  destruct r as [|n'|n']; cbn [ins_post].
  - left. reflexivity.
  - right. exists []. split; [reflexivity|constructor].
  - right. rewrite fst_bind. cbn [tick fst snd]. eexists. split; [reflexivity|].
    rewrite fst_bind. apply Forall_app. split.
    + apply grow_loop_events. apply root_of_node_mem.
    + destruct (snd (grow_loop K V layer max_layer_fuel n' (root_of_node K V m n'))); cbn [ret fst]; constructor.
Qed.

(** the shrink loop after the commit: only loads *)
Lemma load_ev_load (l : link) : evb load_ev (load _ _ l).
Proof. destruct l; unfold evb; cbn; repeat constructor. Qed.

Lemma shrink_events (m : mast K V) : evb load_ev (shrink _ _ m).
Proof.
  unfold shrink. destruct (m_height _ _ m); [apply evb_fail|].
  assert (Hcp : forall l : link, evb load_ev (child_parts _ _ l)).
  { intros l. destruct l; cbn [child_parts]; [apply evb_ret|..]; (apply evb_bind; [apply load_ev_load|intros; apply evb_ret]). }
  assert (Hse : forall es : list entry, evb load_ev (shrink_es _ _ es)).
  { induction es as [|[[k v] l] r IH]; cbn [shrink_es]; [apply evb_ret|].
    apply evb_bind; [apply Hcp|]. intros [q0 qes]. apply evb_bind; [exact IH|]. intros rest. apply evb_ret. }
  destruct (m_root _ _ m); [apply evb_fail|..];
    (apply evb_bind; [apply load_ev_load|]; intros n0; apply evb_bind;
      [unfold shrink_node; apply evb_bind; [apply Hcp|]; intros [p0 pes]; apply evb_bind; [apply Hse|]; intros rest; apply evb_ret|];
     intros n'; destruct (1 <? m_shrink_below _ _ m)%N; apply evb_ret).
Qed.

Lemma shrink_loop_events : forall fuel (m : mast K V), evb load_ev (shrink_loop _ _ fuel m).
Proof.
  induction fuel as [|f IH]; intros m; cbn [shrink_loop]; [apply evb_nofuel|].
  destruct (Nat.ltb 0 (m_height _ _ m) && ((m_size _ _ m <=? m_shrink_below _ _ m)%N || root_has_no_keys _ _ m)); [|apply evb_ret].
  apply evb_bind; [apply shrink_events|]. intros m'. apply IH.
Qed.

Theorem delete_trace_shape (m : mast K V) k v :
  exists pre post, fst (delete _ _ cmp veq layer m k v) = pre ++ post /\
                   Forall pre_ev pre /\ (post = [] \/ exists g, post = ECommit :: g /\ Forall load_ev g).
Proof.
  unfold delete. destruct (m_root _ _ m) as [|c|h c|h] eqn:Er.
  { exists [], []. split; [reflexivity|]. split; [constructor|left; reflexivity]. }
  all: rewrite fst_bind; cbn [tick fst snd]; rewrite fst_bind.
  all: match goal with |- context [load K V ?r] => set (first := load K V r) end.
  all: assert (Hfirst : Forall pre_ev (fst first)) by (eapply Forall_impl; [|apply load_search]; intros e He; destruct e; try contradiction; exact I).
  all: destruct (snd first) as [n| | |] eqn:Esf;
       [|exists ([ELayer] ++ fst first ++ []), []; rewrite !app_nil_r; split; [reflexivity|]; split; [constructor; [exact I|exact Hfirst]|left; reflexivity]..].
  all: rewrite fst_bind.
  all: set (body := del K V cmp veq (S (m_height K V m)) (m_height K V m) (Nat.min (layer k) (m_height K V m)) k v n).
  all: assert (Hdel : Forall pre_ev (fst body)) by (eapply Forall_impl; [|apply del_events]; intros e He; destruct e; try contradiction; exact I).
  all: destruct (snd body) as [n'| | |] eqn:Esb;
       [|exists ([ELayer] ++ fst first ++ fst body ++ []), []; rewrite !app_nil_r; split; [reflexivity|]; split;
          [constructor; [exact I|apply Forall_app; split; assumption]|left; reflexivity]..].
  all: rewrite fst_bind; cbn [tick fst snd].
  all: eexists ([ELayer] ++ fst first ++ fst body), _; split; [rewrite <- !app_assoc; reflexivity|].
  all: split; [constructor; [exact I|apply Forall_app; split; assumption]|].
  all: right; eexists; split; [reflexivity|]; cbn zeta; apply shrink_loop_events.
Qed.

(** read-only operations never commit (and never store) *)
Theorem get_events (m : mast K V) k : evb pre_ev (get _ _ cmp layer m k).
Proof.
  unfold get.
  assert (Hgn : forall fuel cur target (n : node), evb pre_ev (get_node _ _ cmp fuel cur target k n)).
  { induction fuel as [|f IH]; intros cur target n; cbn [get_node]; [apply evb_nofuel|].
    apply evb_tick; [exact I|]. destruct (span_lt _ _ cmp k (n_es _ _ n)) as [les rs].
    destruct (hits _ _ cmp k rs).
    - destruct rs; [apply evb_ret|]. destruct (Nat.eqb cur target); apply evb_ret.
    - destruct (Nat.eqb cur target); [apply evb_ret|].
      destruct (last_link _ _ (n_l0 _ _ n) les); [apply evb_ret|..];
        (apply evb_bind; [eapply Forall_impl; [|apply load_search]; intros e He; destruct e; try contradiction; exact I|intros; apply IH]). }
  destruct (m_root _ _ m); [apply evb_ret|..];
    (apply evb_bind; [eapply Forall_impl; [|apply load_search]; intros e He; destruct e; try contradiction; exact I|];
     intros n; apply evb_tick; [exact I|apply Hgn]).
Qed.

Theorem clone_events (m : mast K V) : evb pre_ev (clone _ _ m).
Proof.
  unfold clone. destruct (m_root _ _ m); [apply evb_ret|..];
    (apply evb_bind; [eapply Forall_impl; [|apply load_search]; intros e He; destruct e; try contradiction; exact I|intros; apply evb_ret]).
Qed.

Lemma iter_node_events : forall fuel (n : node), evb pre_ev (iter_node _ _ fuel n).
Proof.
  induction fuel as [|f IH]; intros n; cbn [iter_node]; [apply evb_nofuel|].
  assert (Hsub : forall l : link, evb pre_ev (match l with LNil => ret [] | _ => let* c := load _ _ l in iter_node _ _ f c end)).
  { intros l. destruct l; [apply evb_ret|..];
      (apply evb_bind; [eapply Forall_impl; [|apply load_search]; intros e He; destruct e; try contradiction; exact I|intros; apply IH]). }
  apply evb_bind; [apply Hsub|]. intros a. apply evb_bind; [|intros; apply evb_ret].
  induction (n_es _ _ n) as [|[[k v] l] r IHr]; [apply evb_ret|].
  apply evb_bind; [apply Hsub|]. intros x. apply evb_bind; [exact IHr|]. intros y. apply evb_ret.
Qed.

Theorem iter_events (m : mast K V) : evb pre_ev (iter _ _ m).
Proof.
  unfold iter. destruct (m_root _ _ m); [apply evb_ret|..];
    (apply evb_bind; [eapply Forall_impl; [|apply load_search]; intros e He; destruct e; try contradiction; exact I|intros; apply iter_node_events]).
Qed.

(** * In the model, Insert cannot report an error once it has committed: the grow loop works on
    nodes in memory and a total layer function (the implementation's layer callback can fail there:
    known finding D13) *)
Definition soft {A} (m : M A) : Prop := match snd m with Ok _ | ErrFuel => True | _ => False end.
Lemma snd_bind {A B} (m : M A) (f : A -> M B) :
  snd (bind m f) = match snd m with Ok a => snd (f a) | Err => Err | ErrFuel => ErrFuel | ErrPanic => ErrPanic end.
Proof. destruct m as [t [a| | |]]; cbn [bind fst snd]; try reflexivity. destruct (f a). reflexivity. Qed.
Lemma soft_bind_dep {A B} (m : M A) (f : A -> M B) (Q : A -> Prop) :
  soft m -> (forall t a, m = (t, Ok a) -> Q a) -> (forall a, Q a -> soft (f a)) -> soft (bind m f).
Proof.
  unfold soft. rewrite snd_bind. destruct m as [t [a| | |]]; cbn [snd]; intros H HQ Hf; try contradiction; try exact I.
  apply Hf. eapply HQ. reflexivity.
Qed.
Lemma soft_ret {A} (a : A) : soft (ret a). Proof. exact I. Qed.
Lemma soft_ticks e n : soft (ticks e n).
Proof. induction n as [|n IH]; [exact I|]. cbn [ticks]. apply (soft_bind_dep _ _ (fun _ => True)); [exact I|trivial|intros _ _; exact IH]. Qed.
Lemma soft_can_grow h (es : list entry) : soft (can_grow _ _ layer h es).
Proof.
  induction es as [|e r IH]; [exact I|]. cbn [can_grow].
  apply (soft_bind_dep _ _ (fun _ => True)); [exact I|trivial|]. intros _ _. destruct (Nat.ltb h (layer (ekey _ _ e))); [exact I|exact IH].
Qed.

Definition growable (root0 : node) (m : mast K V) : Prop :=
  match m_root _ _ m with LPtr _ => True | LNil => n_es _ _ root0 = [] | _ => False end.

Lemma grow_loop_soft : forall fuel root0 (m : mast K V), growable root0 m -> soft (grow_loop _ _ layer fuel root0 m).
Proof.
  induction fuel as [|f IH]; intros root0 m G; cbn [grow_loop]; [exact I|].
  destruct (N.leb (m_grow_after _ _ m) (m_size _ _ m)); [|exact I].
  unfold growable in G. destruct (m_root _ _ m) as [|c|h c|h] eqn:Er; try contradiction.
  - rewrite G. cbn [can_grow]. exact I.
  - apply (soft_bind_dep _ _ (fun _ => True)); [apply soft_can_grow|trivial|]. intros cg _. destruct cg; [|exact I].
    apply (soft_bind_dep _ _ (fun m' => growable root0 m')).
    + unfold grow. rewrite Er. cbn [load]. apply (soft_bind_dep _ _ (fun _ => True)); [exact I|trivial|]. intros n _.
      apply (soft_bind_dep _ _ (fun _ => True)); [apply soft_ticks|trivial|]. intros _ _. exact I.
    + intros t m' E. unfold grow in E. rewrite Er in E. cbn [load] in E.
      apply bind_inv in E. destruct E as (t1 & n & t2 & _ & E & _).
      apply bind_inv in E. destruct E as (t3 & [] & t4 & _ & E & _). unfold ret in E. inversion E. exact I.
    + intros m' G'. apply IH. exact G'.
Qed.

Lemma root_of_node_growable (m : mast K V) n : growable n (root_of_node _ _ m n).
Proof.
  unfold growable, root_of_node. destruct (is_empty _ _ n) eqn:E; cbn; [|exact I].
  destruct n as [d s l0 es]. cbn in E. destruct l0; try discriminate. destruct es; [reflexivity|discriminate].
Qed.

Theorem insert_error_before_commit (m : mast K V) k v :
  snd (insert _ _ cmp veq layer m k v) = Err \/ snd (insert _ _ cmp veq layer m k v) = ErrPanic ->
  Forall pre_ev (fst (insert _ _ cmp veq layer m k v)).
Proof.
  unfold insert.
  set (first := match m_root _ _ m with LNil => ret (fresh_node K V) | r => load _ _ r end).
  set (body := fun n => ins _ _ cmp veq (S (m_height _ _ m)) (m_height _ _ m) (Nat.min (layer k) (m_height _ _ m)) k v n).
  change (snd (tick ELayer >> (let* n := first in let* r := body n in ins_post r m)) = Err \/
          snd (tick ELayer >> (let* n := first in let* r := body n in ins_post r m)) = ErrPanic ->
          Forall pre_ev (fst (tick ELayer >> (let* n := first in let* r := body n in ins_post r m)))).
  rewrite fst_bind, snd_bind. cbn [tick fst snd]. rewrite fst_bind, snd_bind.
  assert (Hfirst : Forall pre_ev (fst first)).
  { unfold first. destruct (m_root _ _ m); [constructor|..]; (eapply Forall_impl; [|apply load_search]; intros e He; destruct e; try contradiction; exact I). }
  destruct (snd first) as [n| | |] eqn:Esf.
  2-4: (intros _; constructor; [exact I|rewrite app_nil_r; exact Hfirst]).
  rewrite fst_bind, snd_bind.
  assert (Hins : Forall pre_ev (fst (body n))).
  { eapply Forall_impl; [|apply ins_events]. intros e He; destruct e; try contradiction; exact I. }
  destruct (snd (body n)) as [r| | |] eqn:Esb.
  2-4: (intros _; constructor; [exact I|rewrite app_nil_r; apply Forall_app; split; assumption]).
  destruct r as [|n'|n']; cbn [ins_post].
  - intros _. constructor; [exact I|]. apply Forall_app; split; [assumption|]. apply Forall_app; split; [assumption|constructor].
  - rewrite snd_bind. cbn [tick snd ret]. intros [H|H]; discriminate H.
  - rewrite snd_bind. cbn [tick snd]. rewrite snd_bind.
    pose proof (grow_loop_soft max_layer_fuel n' (root_of_node _ _ m n') (root_of_node_growable m n')) as S.
    unfold soft in S. destruct (snd (grow_loop K V layer max_layer_fuel n' (root_of_node K V m n'))); try contradiction; cbn [ret snd];
      intros [H|H]; discriminate H.
Qed.

End EVENTS.
