(** Algebra of the entry diff's specification (C06): the merge-difference of a listing with itself is
    empty; an empty merge-difference means equal listings (so "no events" decides equality of the
    two maps); and swapping the two sides mirrors every event (added <-> removed, old <-> new
    value), so diffing in the other direction reports the same keys in the same order.  Together
    with C06_diff_is_merge_difference these carry over to Mast.diff on every pair of trees.
    Lemma file. *)
From Coq Require Import List Bool Sorting.Sorted.
From Mast Require Import Prim Tree KeyOrder Diff Erase Build Spec Canon Links Level Inv DiffSpec.
Import ListNotations.

Section DIFFALG.
Variables K V : Type.
Variable cmp : K -> K -> comparison.
Variable veq : V -> V -> bool.
Hypothesis cmp_eq : forall a b, cmp a b = Eq <-> a = b.
Hypothesis cmp_antisym : forall a b, cmp b a = CompOpp (cmp a b).
Hypothesis veq_eq : forall x y, veq x y = true <-> x = y.
Notation devent := (devent K V).
Notation sdiff := (sdiff K V cmp veq).

Lemma crefl' k : cmp k k = Eq. Proof. apply cmp_eq. reflexivity. Qed.
Lemma vrefl' v : veq v v = true. Proof. apply veq_eq. reflexivity. Qed.

Theorem sdiff_self a : sdiff a a = [].
Proof.
  pose proof (sdiff_same K V cmp veq crefl' vrefl' a [] []) as H. rewrite !app_nil_r in H. exact H.
Qed.

Theorem sdiff_empty_eq : forall a b, sdiff a b = [] -> a = b.
Proof.
  induction a as [|[ko vo] a IH]; intros [|[kn vn] b] H.
  - reflexivity.
  - rewrite sdiff_nil_l in H. discriminate H.
  - rewrite sdiff_nil_r in H. discriminate H.
  - rewrite sdiff_cons in H. destruct (cmp ko kn) eqn:Ec; [|discriminate H|discriminate H].
    destruct (veq vo vn) eqn:Ev; [|discriminate H]. cbn [app] in H.
    apply cmp_eq in Ec. apply veq_eq in Ev. subst kn vn. f_equal. apply IH. exact H.
Qed.

Corollary sdiff_empty_iff a b : sdiff a b = [] <-> a = b.
Proof. split; [apply sdiff_empty_eq|intros ->; apply sdiff_self]. Qed.

(** the same event seen from the other side *)
Definition mirror (e : devent) : devent :=
  match e with
  | DEntry _ _ ad rm k av rv => DEntry _ _ rm ad k rv av
  | e => e
  end.

Lemma mirror_invol e : mirror (mirror e) = e.
Proof. destruct e; reflexivity. Qed.

Lemma veq_sym x y : veq x y = veq y x.
Proof.
  destruct (veq x y) eqn:E1, (veq y x) eqn:E2; try reflexivity.
  - apply veq_eq in E1. subst y. rewrite vrefl' in E2. discriminate E2.
  - apply veq_eq in E2. subst y. rewrite vrefl' in E1. discriminate E1.
Qed.

Theorem sdiff_mirror : forall a b, sdiff b a = map mirror (sdiff a b).
Proof.
  induction a as [|[ko vo] a IHa].
  - intros b. rewrite sdiff_nil_l, sdiff_nil_r, map_map. reflexivity.
  - induction b as [|[kn vn] b IHb].
    + rewrite sdiff_nil_l, sdiff_nil_r, map_map. reflexivity.
    + rewrite (sdiff_cons K V cmp veq kn vn b ko vo a), (sdiff_cons K V cmp veq ko vo a kn vn b).
      rewrite (cmp_antisym ko kn). destruct (cmp ko kn) eqn:Ec; cbn [CompOpp].
      * apply cmp_eq in Ec. subst kn. rewrite map_app, <- IHa, (veq_sym vn vo).
        destruct (veq vo vn); reflexivity.
      * cbn [map mirror]. f_equal. apply IHa.
      * cbn [map mirror]. f_equal. exact IHb.
Qed.

Corollary sdiff_mirror_keys a b : dkeys K V (sdiff b a) = dkeys K V (sdiff a b).
Proof.
  rewrite sdiff_mirror. induction (sdiff a b) as [|e l IH]; [reflexivity|].
  cbn [map]. unfold dkeys in *. cbn [flat_map]. rewrite IH. destruct e; reflexivity.
Qed.

Corollary sdiff_mirror_length a b : length (sdiff b a) = length (sdiff a b).
Proof. rewrite sdiff_mirror. apply map_length. Qed.
End DIFFALG.

(** * carried over to Mast.diff on any two canonical trees whose hash links are consistently named *)
Section DIFFALGT.
Variables (K V : Type) (cmp : K -> K -> comparison) (veq : V -> V -> bool) (layer : K -> nat).
Hypothesis cmp_eq : forall a b, cmp a b = Eq <-> a = b.
Hypothesis cmp_antisym : forall a b, cmp b a = CompOpp (cmp a b).
Hypothesis veq_eq : forall x y, veq x y = true <-> x = y.
Variable P : name -> node K V -> Prop.
Hypothesis hered : forall h c, P h c -> allh K V P c.
Hypothesis Pfun : forall h a b, P h a -> P h b -> a = b.

(** no entry events  <->  the two trees hold the same contents *)
Theorem diff_silent_iff_equal bf (mo mn : mast K V) lo ln :
  canon K V cmp layer bf mo lo -> canon K V cmp layer bf mn ln ->
  allh_l K V P (m_root _ _ mo) -> allh_l K V P (m_root _ _ mn) ->
  oks (diff _ _ cmp veq layer (Some mo) mn) (fun r => filter (is_entry K V) r = [] <-> lo = ln).
Proof.
  intros Co Cn Ho Hn.
  eapply oks_weaken; [exact (diff_canon K V cmp veq layer cmp_eq (vrefl' V veq veq_eq) P hered Pfun bf mo mn lo ln Co Cn Ho Hn)|].
  intros r Hr. rewrite Hr. apply (sdiff_empty_iff K V cmp veq cmp_eq veq_eq).
Qed.

(** the diff in the other direction reports the mirror images of the same events, in the same order *)
Theorem diff_reverse_is_mirror bf (mo mn : mast K V) lo ln :
  canon K V cmp layer bf mo lo -> canon K V cmp layer bf mn ln ->
  allh_l K V P (m_root _ _ mo) -> allh_l K V P (m_root _ _ mn) ->
  oks (diff _ _ cmp veq layer (Some mo) mn) (fun r =>
    oks (diff _ _ cmp veq layer (Some mn) mo) (fun r' =>
      filter (is_entry K V) r' = map (mirror K V) (filter (is_entry K V) r))).
Proof.
  intros Co Cn Ho Hn.
  eapply oks_weaken; [exact (diff_canon K V cmp veq layer cmp_eq (vrefl' V veq veq_eq) P hered Pfun bf mo mn lo ln Co Cn Ho Hn)|].
  intros r Hr.
  eapply oks_weaken; [exact (diff_canon K V cmp veq layer cmp_eq (vrefl' V veq veq_eq) P hered Pfun bf mn mo ln lo Cn Co Hn Ho)|].
  intros r' Hr'. rewrite Hr, Hr'. apply (sdiff_mirror K V cmp veq cmp_eq cmp_antisym veq_eq).
Qed.
End DIFFALGT.
