(** The flush worker pool of pub.go:273-346 as a labelled transition system: n queued Store
    closures are started in queue order by the dispatcher (each start takes one of 40 gate tokens),
    every started closure first looks at the shared first-error flag and is skipped if it is set,
    otherwise performs its Store, which succeeds or fails (setting the flag); flush returns only
    when the wait group is empty.  Invariants over ALL interleavings.  The faithfulness of this LTS to
    goroutines, channels and sync.WaitGroup is trusted (and sampled by the schedule engine). *)
From Coq Require Import List Arith Lia Bool Relations.
Import ListNotations.

Section SCHED.
Variable n : nat.                 (* closures queued by mastNode.store *)
Variable bad : nat -> bool.       (* whose Persist.Store call fails *)

Record sst := SSt {
  s_next : nat;                   (* closures handed to a goroutine so far *)
  s_pending : list nat;           (* started, flag not looked at yet *)
  s_exec : list nat;              (* inside Persist.Store *)
  s_stored : list nat;            (* Store returned nil *)
  s_skipped : list nat;           (* saw the flag and returned without storing *)
  s_failed : list nat;            (* Store returned an error *)
  s_err : bool }.                 (* firstStoreError != nil *)

Definition init : sst := SSt 0 [] [] [] [] [] false.

Definition remove (i : nat) (l : list nat) : list nat := filter (fun j => negb (Nat.eqb j i)) l.

Inductive step : sst -> sst -> Prop :=
| Start s : s_next s < n -> length (s_pending s) + length (s_exec s) < 40 ->
    step s (SSt (S (s_next s)) (s_next s :: s_pending s) (s_exec s) (s_stored s) (s_skipped s) (s_failed s) (s_err s))
| Skip s i : In i (s_pending s) -> s_err s = true ->
    step s (SSt (s_next s) (remove i (s_pending s)) (s_exec s) (s_stored s) (i :: s_skipped s) (s_failed s) (s_err s))
| Enter s i : In i (s_pending s) -> s_err s = false ->
    step s (SSt (s_next s) (remove i (s_pending s)) (i :: s_exec s) (s_stored s) (s_skipped s) (s_failed s) (s_err s))
| FinishOk s i : In i (s_exec s) -> bad i = false ->
    step s (SSt (s_next s) (s_pending s) (remove i (s_exec s)) (i :: s_stored s) (s_skipped s) (s_failed s) (s_err s))
| FinishErr s i : In i (s_exec s) -> bad i = true ->
    step s (SSt (s_next s) (s_pending s) (remove i (s_exec s)) (s_stored s) (s_skipped s) (i :: s_failed s) true).

Definition reach : sst -> Prop := clos_refl_trans _ step init.

(* wg.Wait() lets flush return only here *)
Definition can_return (s : sst) : Prop := s_next s = n /\ s_pending s = [] /\ s_exec s = [].
Definition result_ok (s : sst) : bool := negb (s_err s).

Record inv (s : sst) : Prop := {
  i_cover : forall i, i < s_next s -> In i (s_pending s) \/ In i (s_exec s) \/ In i (s_stored s) \/ In i (s_skipped s) \/ In i (s_failed s);
  i_next : s_next s <= n;
  i_gate : length (s_pending s) + length (s_exec s) <= 40;
  i_stored : forall i, In i (s_stored s) -> bad i = false /\ i < n;
  i_failed : forall i, In i (s_failed s) -> bad i = true;
  i_err : s_err s = true <-> s_failed s <> [];
  i_skip : s_skipped s <> [] -> s_err s = true;
  i_range : forall i, In i (s_pending s) \/ In i (s_exec s) -> i < s_next s
}.

Lemma in_remove i j l : In j (remove i l) <-> In j l /\ j <> i.
Proof.
  unfold remove. rewrite filter_In. split; intros [H1 H2]; split; try exact H1.
  - apply negb_true_iff, Nat.eqb_neq in H2. exact H2.
  - apply negb_true_iff, Nat.eqb_neq. exact H2.
Qed.

Lemma length_remove i l : length (remove i l) <= length l.
Proof. unfold remove. induction l as [|x l IH]; cbn; [lia|]. destruct (negb (x =? i)); cbn; lia. Qed.

Lemma length_remove_in i l : In i l -> length (remove i l) < length l.
Proof.
  unfold remove. induction l as [|x l IH]; intros H; [contradiction|]. cbn.
  destruct (Nat.eqb x i) eqn:E; cbn.
  - pose proof (length_remove i l). unfold remove in *. lia.
  - destruct H as [H|H]; [subst; rewrite Nat.eqb_refl in E; discriminate|]. specialize (IH H). lia.
Qed.

Lemma inv_init : inv init.
Proof. constructor; cbn; try lia; try contradiction; try tauto. split; [discriminate|intros H; contradiction]. Qed.

Lemma in_remove_in i j l : In j (remove i l) -> In j l.
Proof. intros H. apply in_remove in H. tauto. Qed.

Lemma inv_step s s' : inv s -> step s s' -> inv s'.
Proof.
  intros I St. destruct St; constructor; cbn [s_next s_pending s_exec s_stored s_skipped s_failed s_err].
  (* Start *)
  - intros i Hi. destruct (Nat.eq_dec i (s_next s)) as [->|Hne]; [left; left; reflexivity|].
    destruct (i_cover _ I i ltac:(lia)) as [H1|H1]; [left; right; exact H1|right; exact H1].
  - lia.
  - cbn [length]. lia.
  - exact (i_stored _ I).
  - exact (i_failed _ I).
  - exact (i_err _ I).
  - exact (i_skip _ I).
  - intros i [[->|H1]|H1]; [lia| |]; pose proof (i_range _ I i); intuition lia.
  (* Skip *)
  - intros j Hj. destruct (Nat.eq_dec j i) as [->|Hne]; [right; right; right; left; left; reflexivity|].
    destruct (i_cover _ I j Hj) as [H1|[H1|[H1|[H1|H1]]]]; [left; apply in_remove; split; assumption|right; left; exact H1|
      right; right; left; exact H1|right; right; right; left; right; exact H1|right; right; right; right; exact H1].
  - exact (i_next _ I).
  - pose proof (length_remove i (s_pending s)). pose proof (i_gate _ I). lia.
  - exact (i_stored _ I).
  - exact (i_failed _ I).
  - exact (i_err _ I).
  - intros _. assumption.
  - intros j [H1|H1]; [apply in_remove_in in H1|]; apply (i_range _ I j); tauto.
  (* Enter *)
  - intros j Hj. destruct (Nat.eq_dec j i) as [->|Hne]; [right; left; left; reflexivity|].
    destruct (i_cover _ I j Hj) as [H1|[H1|H1]]; [left; apply in_remove; split; assumption|right; left; right; exact H1|right; right; exact H1].
  - exact (i_next _ I).
  - pose proof (length_remove_in i (s_pending s) H). pose proof (i_gate _ I). cbn [length]. lia.
  - exact (i_stored _ I).
  - exact (i_failed _ I).
  - exact (i_err _ I).
  - exact (i_skip _ I).
  - intros j [H1|[->|H1]]; [apply in_remove_in in H1| |]; apply (i_range _ I); tauto.
  (* FinishOk *)
  - intros j Hj. destruct (Nat.eq_dec j i) as [->|Hne]; [right; right; left; left; reflexivity|].
    destruct (i_cover _ I j Hj) as [H1|[H1|[H1|H1]]]; [left; exact H1|right; left; apply in_remove; split; assumption|
      right; right; left; right; exact H1|right; right; right; exact H1].
  - exact (i_next _ I).
  - pose proof (length_remove i (s_exec s)). pose proof (i_gate _ I). lia.
  - intros j [->|Hj]; [|exact (i_stored _ I j Hj)]. split; [assumption|].
    pose proof (i_range _ I j (or_intror H)). pose proof (i_next _ I). lia.
  - exact (i_failed _ I).
  - exact (i_err _ I).
  - exact (i_skip _ I).
  - intros j [H1|H1]; [|apply in_remove_in in H1]; apply (i_range _ I); tauto.
  (* FinishErr *)
  - intros j Hj. destruct (Nat.eq_dec j i) as [->|Hne]; [right; right; right; right; left; reflexivity|].
    destruct (i_cover _ I j Hj) as [H1|[H1|[H1|[H1|H1]]]]; [left; exact H1|right; left; apply in_remove; split; assumption|
      right; right; left; exact H1|right; right; right; left; exact H1|right; right; right; right; right; exact H1].
  - exact (i_next _ I).
  - pose proof (length_remove i (s_exec s)). pose proof (i_gate _ I). lia.
  - exact (i_stored _ I).
  - intros j [->|Hj]; [assumption|exact (i_failed _ I j Hj)].
  - split; [discriminate|reflexivity].
  - intros _. reflexivity.
  - intros j [H1|H1]; [|apply in_remove_in in H1]; apply (i_range _ I); tauto.
Qed.

Lemma reach_inv s : reach s -> inv s.
Proof.
  intros R. apply clos_rt_rtn1 in R. induction R as [|s1 s2 St _ IH]; [exact inv_init|exact (inv_step _ _ IH St)].
Qed.

(** when flush is allowed to return, no Store call is still running *)
Theorem returned_none_running s : can_return s -> s_exec s = [] /\ s_pending s = [].
Proof. intros (_ & H1 & H2). split; assumption. Qed.

(** at most 40 Store calls are ever in flight *)
Theorem gate_bound s : reach s -> length (s_pending s) + length (s_exec s) <= 40.
Proof. intros R. exact (i_gate _ (reach_inv s R)). Qed.

(** success is reported only if every queued write really was performed and succeeded *)
Theorem return_ok_complete s : reach s -> can_return s -> result_ok s = true ->
  forall i, i < n -> In i (s_stored s) /\ bad i = false.
Proof.
  intros R (Hn & Hp & He) Hok i Hi. pose proof (reach_inv s R) as I.
  unfold result_ok in Hok. apply negb_true_iff in Hok.
  assert (Hf : s_failed s = []).
  { destruct (s_failed s) eqn:E; [reflexivity|]. exfalso. assert (s_err s = true) by (apply (i_err _ I); rewrite E; discriminate). congruence. }
  assert (Hs : s_skipped s = []).
  { destruct (s_skipped s) eqn:E; [reflexivity|]. exfalso. assert (s_err s = true) by (apply (i_skip _ I); rewrite E; discriminate). congruence. }
  destruct (i_cover _ I i ltac:(lia)) as [H1|[H1|[H1|[H1|H1]]]].
  - rewrite Hp in H1. contradiction.
  - rewrite He in H1. contradiction.
  - split; [exact H1|exact (proj1 (i_stored _ I i H1))].
  - rewrite Hs in H1. contradiction.
  - rewrite Hf in H1. contradiction.
Qed.

(** an error is reported exactly when a Store that was executed failed *)
Theorem return_err_iff s : reach s -> (result_ok s = false <-> exists i, In i (s_failed s) /\ bad i = true).
Proof.
  intros R. pose proof (reach_inv s R) as I. unfold result_ok. rewrite negb_false_iff. rewrite (i_err _ I). split.
  - intros H. destruct (s_failed s) as [|i r] eqn:E; [contradiction|]. exists i. split; [left; reflexivity|].
    apply (i_failed _ I). rewrite E. left. reflexivity.
  - intros (i & Hi & _) E. rewrite E in Hi. contradiction.
Qed.

(** without failing writes the outcome does not depend on the interleaving: success, everything stored *)
Theorem schedule_independent s : (forall i, bad i = false) -> reach s -> can_return s ->
  result_ok s = true /\ forall i, i < n -> In i (s_stored s).
Proof.
  intros Hb R C. assert (Hok : result_ok s = true).
  { destruct (result_ok s) eqn:E; [reflexivity|]. apply (return_err_iff s R) in E. destruct E as (i & _ & Hbi). rewrite Hb in Hbi. discriminate. }
  split; [exact Hok|]. intros i Hi. exact (proj1 (return_ok_complete s R C Hok i Hi)).
Qed.

End SCHED.
