(** The Merkle search tree of lib.go / pub.go as executable Gallina, written the way the Go code is
    written (same case splits, thresholds and pruning), generic in the key type, its order and its
    layer function.  One definition of each algorithm, over trees whose links are annotated with
    their residency (nil / in-memory pointer / content hash with the stored node carried inline)
    and whose nodes carry the Go flags [dirty] and [source].  Every operation returns its outcome
    together with the trace of loads, callback uses and the commit point.

    Model file: definitions only.  The model describes the code with the repairs D1-D12, D14,
    D16, D17 of DESIGN.md section 3 applied; the pre-repair variants used by the [_refuted]
    examples are in Prefix.v. *)
From Coq Require Import List NArith ZArith Lia Bool.
From Mast Require Import Prim.
Import ListNotations.

(** * outcomes and traces *)
Inductive res (A : Type) := Ok (a : A) | Err | ErrFuel | ErrPanic.
Arguments Ok {A}. Arguments Err {A}. Arguments ErrFuel {A}. Arguments ErrPanic {A}.

Inductive event :=
| ELoad (h : name)              (* Persist.Load of a node name (no cache) *)
| ECmp                          (* a node visit that calls KeyCompare *)
| ELayer                        (* a call of the layer function (which may marshal) *)
| ECommit                       (* the new state becomes visible (savePathForRoot) *)
| EStore (h : name) (b : bytes) (* Persist.Store *).

Definition M (A : Type) : Type := (list event * res A)%type.
Definition ret {A} (a : A) : M A := ([], Ok a).
Definition fail {A} : M A := ([], Err).
Definition panic {A} : M A := ([], ErrPanic).
Definition nofuel {A} : M A := ([], ErrFuel).
Definition tick (e : event) : M unit := ([e], Ok tt).
Definition bind {A B} (m : M A) (f : A -> M B) : M B :=
  match m with
  | (t, Ok a) => let (t', r) := f a in (t ++ t', r)
  | (t, Err) => (t, Err)
  | (t, ErrFuel) => (t, ErrFuel)
  | (t, ErrPanic) => (t, ErrPanic)
  end.
Notation "'let*' x ':=' r 'in' k" := (bind r (fun x => k))
  (at level 200, x pattern, r at level 100, k at level 200).
Notation "r '>>' k" := (bind r (fun _ => k)) (at level 100, k at level 200, right associativity).

(* bf^e: growAfterSize / shrinkBelowSize *)
Fixpoint pow_N (b : N) (e : nat) : N := match e with O => 1%N | S e' => (b * pow_N b e')%N end.

(** * trees *)
Inductive lk (A : Type) :=
| LNil                            (* nil *)
| LPtr (a : A)                    (* *mastNode held by this tree *)
| LHash (h : name) (a : A)        (* hash string; [a] is the node the store holds under [h] *)
| LBad (h : name).                (* hash string the store cannot resolve *)
Arguments LNil {A}. Arguments LPtr {A}. Arguments LHash {A}. Arguments LBad {A}.

Section MST.
Variables K V : Type.
Variable cmp : K -> K -> comparison.
Variable veq : V -> V -> bool.        (* reflect.DeepEqual on values *)

(* Node dirty source Link[0] [(Key[i], Value[i], Link[i+1])] *)
Inductive node := Node (dirty : bool) (src : option name) (l0 : lk node) (es : list (K * V * lk node)).
Definition link := lk node.
Definition entry := (K * V * link)%type.
Definition ekey (e : entry) : K := fst (fst e).
Definition eval (e : entry) : V := snd (fst e).
Definition elink (e : entry) : link := snd e.

Definition n_dirty (n : node) := match n with Node d _ _ _ => d end.
Definition n_src (n : node) := match n with Node _ s _ _ => s end.
Definition n_l0 (n : node) := match n with Node _ _ l _ => l end.
Definition n_es (n : node) := match n with Node _ _ _ es => es end.
Definition n_links (n : node) : list link := n_l0 n :: map elink (n_es n).
Definition n_nkeys (n : node) : nat := length (n_es n).

Definition is_nil (l : link) : bool := match l with LNil => true | _ => false end.
(* mastNode.isEmpty: one link, and it is nil *)
Definition is_empty (n : node) : bool := match n with Node _ _ LNil [] => true | _ => false end.
(* emptyNodePointer: not dirty, no source *)
Definition fresh_node : node := Node false None LNil [].
(* a node built by split/merge/grow/shrink/savePathForRoot: dirty, no source *)
Definition mk_dirty (l0 : link) (es : list entry) : node := Node true None l0 es.
(* what savePathForRoot links in: nil for an empty node *)
Definition link_of (n : node) : link := if is_empty n then LNil else LPtr n.

(** Mast.load (store.go:25-34) without cache *)
Definition load (l : link) : M node :=
  match l with
  | LNil => fail
  | LPtr n => ret n
  | LHash h n => tick (ELoad h) >> ret n
  | LBad h => tick (ELoad h) >> fail
  end.

(** in-order listing; looks through every kind of link, ignores flags *)
Fixpoint to_list_n (n : node) : list (K * V) :=
  match n with
  | Node _ _ l0 es =>
      (match l0 with LNil => [] | LPtr c => to_list_n c | LHash _ c => to_list_n c | LBad _ => [] end) ++
      (fix go (es : list entry) : list (K * V) :=
         match es with
         | [] => []
         | (k, v, l) :: r =>
             (k, v) :: (match l with LNil => [] | LPtr c => to_list_n c | LHash _ c => to_list_n c | LBad _ => [] end) ++ go r
         end) es
  end.
Definition to_list (l : link) : list (K * V) :=
  match l with LNil => [] | LPtr c => to_list_n c | LHash _ c => to_list_n c | LBad _ => [] end.

Definition klt (a b : K) : bool := match cmp a b with Lt => true | _ => false end.
Definition keq (a b : K) : bool := match cmp a b with Eq => true | _ => false end.

(** entries with key < k, and the rest: the index findNode / split compute *)
Fixpoint span_lt (k : K) (es : list entry) : list entry * list entry :=
  match es with
  | [] => ([], [])
  | e :: r => if klt (ekey e) k then let (a, b) := span_lt k r in (e :: a, b) else ([], es)
  end.

(* Link[len(es)] of a node (l0, es) *)
Definition last_link (l0 : link) (es : list entry) : link :=
  match rev es with [] => l0 | e :: _ => elink e end.
Definition set_last_link (l0 : link) (es : list entry) (nl : link) : link * list entry :=
  match rev es with
  | [] => (nl, [])
  | (k, v, _) :: r => (l0, rev r ++ [(k, v, nl)])
  end.

Definition hits (k : K) (rs : list entry) : bool :=
  match rs with e :: _ => keq (ekey e) k | [] => false end.

(** * split (lib.go:82-181); fuel = level of the node + 1 *)
Definition on_link {A} (l : link) (dflt : A) (f : node -> M A) : M A :=
  match l with LNil => ret dflt | _ => let* c := load l in f c end.

Fixpoint split (fuel : nat) (k : K) (n : node) : M (link * link) :=
  match fuel with
  | O => nofuel
  | S f =>
    tick ECmp >>
    let (les, rs) := span_lt k (n_es n) in
    if hits k rs then panic else
    let* (lm', tooBig) := on_link (last_link (n_l0 n) les) (LNil, LNil) (split f k) in
    let (l0', les') := set_last_link (n_l0 n) les lm' in
    let* (tooSmall, rm') := on_link tooBig (LNil, LNil) (split f k) in
    if is_nil tooSmall then ret (link_of (mk_dirty l0' les'), link_of (mk_dirty rm' rs))
    else panic
  end.

(** * mergeNodes (lib.go:601-643) *)
Fixpoint merge (fuel : nat) (a b : link) : M link :=
  match a, b with
  | LNil, _ => ret b
  | _, LNil => ret a
  | _, _ =>
    match fuel with
    | O => nofuel
    | S f =>
      let* na := load a in
      let* nb := load b in
      let* m := merge f (last_link (n_l0 na) (n_es na)) (n_l0 nb) in
      let (l0', aes') := set_last_link (n_l0 na) (n_es na) m in
      ret (LPtr (mk_dirty l0' (aes' ++ n_es nb)))
    end
  end.

(** * findNode + Get (pub.go:351-389, lib.go:194-253); cur = level of n, fuel = cur + 1 *)
Fixpoint get_node (fuel : nat) (cur target : nat) (k : K) (n : node) : M (option V) :=
  match fuel with
  | O => nofuel
  | S f =>
    tick ECmp >>
    let (les, rs) := span_lt k (n_es n) in
    if hits k rs then
      match rs with
      | e :: _ => if Nat.eqb cur target then ret (Some (eval e)) else ret None
      | [] => ret None
      end
    else if Nat.eqb cur target then ret None
    else match last_link (n_l0 n) les with
         | LNil => ret None      (* follow returns the same node; the search ends not-found *)
         | l => let* c := load l in get_node f (cur - 1) target k c
         end
  end.

(** * Insert below the root: findNode(createMissingNodes) to the target layer, split the child,
      then the effect of savePathForRoot on the way back. *)
Inductive ins_res :=
| INoop                 (* the key was there with a deep-equal value: nothing is touched *)
| IUpd (n : node)       (* value replaced *)
| IIns (n : node).      (* new entry *)

Fixpoint ins (fuel : nat) (cur target : nat) (k : K) (v : V) (n : node) : M ins_res :=
  match fuel with
  | O => nofuel
  | S f =>
    tick ECmp >>
    let (les, rs) := span_lt k (n_es n) in
    if hits k rs then
      if negb (Nat.eqb cur target) then panic   (* "dunno why we didn't land in the right layer" *)
      else match rs with
           | (k', v', l) :: rs' =>
               if veq v' v then ret INoop
               else ret (IUpd (mk_dirty (n_l0 n) (les ++ (k', v, l) :: rs')))
           | [] => panic
           end
    else if Nat.eqb cur target then
      let* (ll, rl) := on_link (last_link (n_l0 n) les) (LNil, LNil) (split f k) in
      let (l0', les') := set_last_link (n_l0 n) les ll in
      ret (IIns (mk_dirty l0' (les' ++ (k, v, rl) :: rs)))
    else
      let child := last_link (n_l0 n) les in
      let* c := (match child with LNil => ret fresh_node | _ => load child end) in
      let* r := ins f (cur - 1) target k v c in
      let up (c' : node) : node :=
        let (l0', les') := set_last_link (n_l0 n) les (link_of c') in mk_dirty l0' (les' ++ rs) in
      match r with
      | INoop => ret INoop
      | IUpd c' => ret (IUpd (up c'))
      | IIns c' => ret (IIns (up c'))
      end
  end.

(** * Delete below the root: findEntry, mergeNodes of the neighbours, savePathForRoot *)
Fixpoint del (fuel : nat) (cur target : nat) (k : K) (v : V) (n : node) : M node :=
  match fuel with
  | O => nofuel
  | S f =>
    tick ECmp >>
    let (les, rs) := span_lt k (n_es n) in
    if hits k rs then
      if negb (Nat.eqb cur target) then fail
      else match rs with
           | (_, v', l) :: rs' =>
               if veq v' v then
                 let* m := merge f (last_link (n_l0 n) les) l in
                 let (l0', les') := set_last_link (n_l0 n) les m in
                 ret (mk_dirty l0' (les' ++ rs'))
               else fail
           | [] => fail
           end
    else if Nat.eqb cur target then fail
    else match last_link (n_l0 n) les with
         | LNil => fail
         | child =>
             let* c := load child in
             let* c' := del f (cur - 1) target k v c in
             let (l0', les') := set_last_link (n_l0 n) les (link_of c') in
             ret (mk_dirty l0' (les' ++ rs))
         end
  end.

(** * grow (lib.go:279-367): keys of layer > h stay in the new root, the runs between them become
      its children (extract) *)
Variable layer : K -> nat.

Definition extract (l0 : link) (es : list entry) : link := link_of (mk_dirty l0 es).

Fixpoint grow_es (h : nat) (cl0 : link) (acc : list entry) (es : list entry) : link * list entry :=
  match es with
  | [] => (extract cl0 (rev acc), [])
  | (k, v, l) :: r =>
      if Nat.ltb h (layer k) then
        let left := extract cl0 (rev acc) in
        let (nl, nes) := grow_es h l [] r in
        (left, (k, v, nl) :: nes)
      else grow_es h cl0 ((k, v, l) :: acc) r
  end.
Definition grow_node (h : nat) (n : node) : node :=
  let (l0', es') := grow_es h (n_l0 n) [] (n_es n) in mk_dirty l0' es'.

(* canGrow (lib.go:369-380): one layer call per key until one is above h *)
Fixpoint can_grow (h : nat) (es : list entry) : M bool :=
  match es with
  | [] => ret false
  | e :: r => tick ELayer >> if Nat.ltb h (layer (ekey e)) then ret true else can_grow h r
  end.
Fixpoint ticks (e : event) (n : nat) : M unit :=
  match n with O => ret tt | S m => tick e >> ticks e m end.

(** * shrink (lib.go:382-449): the children of the root are spliced into it *)
Definition child_parts (l : link) : M (link * list entry) :=
  match l with
  | LNil => ret (LNil, [])
  | _ => let* c := load l in ret (n_l0 c, n_es c)
  end.
Fixpoint shrink_es (es : list entry) : M (list entry) :=
  match es with
  | [] => ret []
  | (k, v, l) :: r =>
      let* (q0, qes) := child_parts l in
      let* rest := shrink_es r in
      ret ((k, v, q0) :: qes ++ rest)
  end.
Definition shrink_node (n : node) : M node :=
  let* (p0, pes) := child_parts (n_l0 n) in
  let* rest := shrink_es (n_es n) in
  ret (mk_dirty p0 (pes ++ rest)).

(** * iter (lib.go:509-532); fuel = level + 1 *)
Fixpoint iter_node (fuel : nat) (n : node) : M (list (K * V)) :=
  match fuel with
  | O => nofuel
  | S f =>
    let sub (l : link) : M (list (K * V)) :=
      match l with LNil => ret [] | _ => let* c := load l in iter_node f c end in
    let* a := sub (n_l0 n) in
    let* b := (fix go (es : list entry) : M (list (K * V)) :=
                 match es with
                 | [] => ret []
                 | (k, v, l) :: r => let* x := sub l in let* y := go r in ret ((k, v) :: x ++ y)
                 end) (n_es n) in
    ret (a ++ b)
  end.

(** * seekIter as repaired (D5): entries with key >= k under n *)
Fixpoint seek_node (fuel : nat) (k : K) (n : node) : M (list (K * V)) :=
  match fuel with
  | O => nofuel
  | S f =>
    tick ECmp >>
    let (les, rs) := span_lt k (n_es n) in
    let sub (l : link) : M (list (K * V)) :=
      match l with LNil => ret [] | _ => let* c := load l in iter_node f c end in
    let* a := (if hits k rs then ret []
               else match last_link (n_l0 n) les with
                    | LNil => ret []
                    | l => let* c := load l in seek_node f k c
                    end) in
    let* b := (fix go (es : list entry) : M (list (K * V)) :=
                 match es with
                 | [] => ret []
                 | (k', v, l) :: r => let* x := sub l in let* y := go r in ret ((k', v) :: x ++ y)
                 end) rs in
    ret (a ++ b)
  end.

(** * the tree record (Mast) *)
Record mast := Mast {
  m_root : link;
  m_height : nat;
  m_size : N;
  m_bf : N;
  m_grow_after : N;       (* growAfterSize *)
  m_shrink_below : N;     (* shrinkBelowSize *)
  m_emptied : bool        (* D14: the root became nil since the last flush *)
}.

Definition set_root (m : mast) (r : link) (emptied : bool) : mast :=
  Mast r (m_height m) (m_size m) (m_bf m) (m_grow_after m) (m_shrink_below m) emptied.

Definition root_of_node (m : mast) (n : node) : mast :=
  if is_empty n then set_root m LNil true else set_root m (LPtr n) (m_emptied m).

(** Get (pub.go:351-389) *)
Definition get (m : mast) (k : K) : M (option V) :=
  match m_root m with
  | LNil => ret None
  | r =>
    let* n := load r in
    tick ELayer >>
    get_node (S (m_height m)) (m_height m) (Nat.min (layer k) (m_height m)) k n
  end.

Definition grow (m : mast) : M mast :=
  let* n := load (m_root m) in
  ticks ELayer (n_nkeys n) >>
  ret (Mast (LPtr (grow_node (m_height m) n)) (S (m_height m)) (m_size m) (m_bf m)
            (m_grow_after m * m_bf m)%N (m_grow_after m) (m_emptied m)).

(* the grow loop of Insert (pub.go:487-503); [root0] is options.path[0].node *)
Fixpoint grow_loop (fuel : nat) (root0 : node) (m : mast) : M mast :=
  match fuel with
  | O => nofuel
  | S f =>
    if (m_grow_after m <=? m_size m)%N then
      let* cg := can_grow (m_height m) (n_es root0) in
      if cg then let* m' := grow m in grow_loop f root0 m' else ret m
    else ret m
  end.

Definition max_layer_fuel : nat := 300.   (* layers are uint8 *)

Definition set_size (m : mast) (s : N) : mast :=
  Mast (m_root m) (m_height m) s (m_bf m) (m_grow_after m) (m_shrink_below m) (m_emptied m).

(** Insert (pub.go:392-506, as repaired by D12) *)
Definition insert (m : mast) (k : K) (v : V) : M mast :=
  tick ELayer >>
  let target := Nat.min (layer k) (m_height m) in
  let* n := (match m_root m with LNil => ret fresh_node | r => load r end) in
  let* r := ins (S (m_height m)) (m_height m) target k v n in
  match r with
  | INoop => ret m
  | IUpd n' => tick ECommit >> ret (root_of_node m n')
  | IIns n' =>
      tick ECommit >>
      let* m2 := grow_loop max_layer_fuel n' (root_of_node m n') in
      ret (set_size m2 (m_size m2 + 1))
  end.

Definition shrink (m : mast) : M mast :=
  match m_height m with
  | O => fail
  | S h' =>
    match m_root m with
    | LNil => fail
    | r =>
      let* n := load r in
      let* n' := shrink_node n in
      let (sb, ga) := if (1 <? m_shrink_below m)%N
                      then ((m_shrink_below m / m_bf m)%N, (m_grow_after m / m_bf m)%N)
                      else (m_shrink_below m, m_grow_after m) in
      ret (Mast (link_of n') h' (m_size m) (m_bf m) ga sb (m_emptied m))
    end
  end.

Definition root_has_no_keys (m : mast) : bool :=
  match m_root m with
  | LNil => true
  | LPtr n => match n_es n with [] => true | _ => false end
  | _ => false
  end.

(* the shrink loop of Delete as repaired by D8 *)
Fixpoint shrink_loop (fuel : nat) (m : mast) : M mast :=
  match fuel with
  | O => nofuel
  | S f =>
    if Nat.ltb 0 (m_height m) && ((m_size m <=? m_shrink_below m)%N || root_has_no_keys m)
    then let* m' := shrink m in shrink_loop f m'
    else ret m
  end.

(** Delete (pub.go:89-127) *)
Definition delete (m : mast) (k : K) (v : V) : M mast :=
  match m_root m with
  | LNil => fail
  | r =>
    tick ELayer >>
    let target := Nat.min (layer k) (m_height m) in
    let* n := load r in
    let* n' := del (S (m_height m)) (m_height m) target k v n in
    tick ECommit >>
    let m1 := root_of_node m n' in
    shrink_loop max_layer_fuel (set_size m1 (m_size m1 - 1))
  end.

(** Iter (pub.go:509-519 as repaired by D1) *)
Definition iter (m : mast) : M (list (K * V)) :=
  match m_root m with
  | LNil => ret []
  | r => let* n := load r in iter_node (S (m_height m)) n
  end.

(** SeekIter (as repaired by D5) *)
Definition seek_iter (m : mast) (k : K) : M (list (K * V)) :=
  match m_root m with
  | LNil => ret []
  | r => let* n := load r in seek_node (S (m_height m)) k n
  end.

(** Clone (pub.go:684-698): the root is loaded and becomes a pointer; unshared in-memory nodes
    are deep-copied, which is the identity on values *)
Definition clone (m : mast) : M mast :=
  match m_root m with
  | LNil => ret m
  | r => let* n := load r in ret (set_root m (LPtr n) (m_emptied m))
  end.

(** IsDirty (pub.go:700-706 as repaired by D14) *)
Definition is_dirty (m : mast) : bool :=
  match m_root m with
  | LPtr n => n_dirty n
  | LNil => m_emptied m
  | _ => false
  end.

(** * Cursor (pub.go:708-944 as repaired by D3, D4).  The path is kept with the current entry
      first; indices are [Z] because Max on an entry-less node leaves -1. *)
Definition cpath := list (node * Z).

Definition nth_link (n : node) (i : Z) : link :=
  if (i <? 0)%Z then LNil else nth (Z.to_nat i) (n_links n) LNil.
Definition nlinks (n : node) : Z := Z.of_nat (S (n_nkeys n)).
Definition nkeys (n : node) : Z := Z.of_nat (n_nkeys n).

Definition cursor (m : mast) : M cpath :=
  let* m' := clone m in
  match m_root m' with
  | LNil => ret []
  | r => let* n := load r in ret [(n, 0%Z)]
  end.

Fixpoint cur_min_from (fuel : nat) (n : node) (p : cpath) : M cpath :=
  match fuel with
  | O => nofuel
  | S f =>
    match n_l0 n with
    | LNil => ret p
    | l => let* c := load l in cur_min_from f c ((c, 0%Z) :: p)
    end
  end.
Definition cur_min (fuel : nat) (p : cpath) : M cpath :=
  match p with
  | [] => ret []
  | (n, _) :: _ => cur_min_from fuel n p
  end.

Fixpoint cur_max_from (fuel : nat) (n : node) (p : cpath) : M cpath :=
  match fuel with
  | O => nofuel
  | S f =>
    match last_link (n_l0 n) (n_es n) with
    | LNil => ret ((n, (nkeys n - 1)%Z) :: p)
    | l => let* c := load l in cur_max_from f c ((n, (nlinks n - 1)%Z) :: p)
    end
  end.
Definition cur_max (fuel : nat) (p : cpath) : M cpath :=
  match p with
  | [] => ret []
  | (n, _) :: rest => cur_max_from fuel n rest
  end.

Definition cur_get (p : cpath) : option (K * V) :=
  match p with
  | [] => None
  | (n, i) :: _ =>
      if (i <? 0)%Z then None
      else match nth_error (n_es n) (Z.to_nat i) with Some e => Some (ekey e, eval e) | None => None end
  end.

Fixpoint cur_pop_fwd (p : cpath) : cpath :=
  match p with
  | [] => []
  | (n, i) :: rest => if (i <? nkeys n)%Z then p else cur_pop_fwd rest
  end.
Definition cur_forward (fuel : nat) (p : cpath) : M cpath :=
  match p with
  | [] => ret []
  | (n, i) :: rest =>
      if ((i + 1 <? nlinks n)%Z && negb (is_nil (nth_link n (i + 1))))%bool then
        let* c := load (nth_link n (i + 1)) in
        cur_min_from fuel c ((c, 0%Z) :: (n, (i + 1)%Z) :: rest)
      else if (i + 1 <? nkeys n)%Z then ret ((n, (i + 1)%Z) :: rest)
      else ret (cur_pop_fwd rest)
  end.

Fixpoint cur_pop_bwd (p : cpath) : cpath :=
  match p with
  | [] => []
  | (n, i) :: rest => if (0 <? i)%Z then (n, (i - 1)%Z) :: rest else cur_pop_bwd rest
  end.
Definition cur_backward (fuel : nat) (p : cpath) : M cpath :=
  match p with
  | [] => ret []
  | (n, i) :: rest =>
      if ((0 <=? i)%Z && negb (is_nil (nth_link n i)))%bool then
        let* c := load (nth_link n i) in
        cur_max_from fuel c p
      else if (0 <? i)%Z then ret ((n, (i - 1)%Z) :: rest)
      else ret (cur_pop_bwd rest)
  end.

Fixpoint cur_pop_ceil (p : cpath) : cpath :=
  match p with
  | [] => []
  | (n, i) :: rest => if (i =? nkeys n)%Z then cur_pop_ceil rest else p
  end.
Fixpoint cur_ceil_from (fuel : nat) (k : K) (n : node) (rest : cpath) : M cpath :=
  match fuel with
  | O => nofuel
  | S f =>
    tick ECmp >>
    let (les, rs) := span_lt k (n_es n) in
    let i := Z.of_nat (length les) in
    if hits k rs then ret ((n, i) :: rest)
    else match last_link (n_l0 n) les with
         | LNil => ret (cur_pop_ceil ((n, i) :: rest))
         | l => let* c := load l in cur_ceil_from f k c ((n, i) :: rest)
         end
  end.
Definition cur_ceil (fuel : nat) (k : K) (p : cpath) : M cpath :=
  match p with
  | [] => ret []
  | (n, _) :: rest => cur_ceil_from fuel k n rest
  end.

End MST.

Arguments Node {K V}.
Arguments Mast {K V}.
Arguments INoop {K V}.
Arguments IUpd {K V}.
Arguments IIns {K V}.
