module verif/harness

go 1.22.0

require (
	github.com/aws/aws-sdk-go v1.55.5
	github.com/jrhy/mast v0.0.0
)

require (
	github.com/hashicorp/golang-lru v1.0.2 // indirect
	github.com/jmespath/go-jmespath v0.4.0 // indirect
	github.com/minio/blake2b-simd v0.0.0-20160723061019-3f5f724cb5b1 // indirect
)

replace github.com/jrhy/mast => /repo
