// Package runner executes histories (the text protocol shared with the extracted Coq model)
// against the real jrhy/mast implementation through its public API, behind a recording,
// fault-injecting Persist / KeyCompare / Marshal, and prints one canonical observation per operation.
package runner

import (
	"bytes"
	"context"
	"encoding/binary"
	"encoding/hex"
	"encoding/json"
	"errors"
	"fmt"
	"reflect"
	"runtime"
	"sort"
	"strconv"
	"strings"
	"sync"
	"time"

	"github.com/jrhy/mast"
)

// ---- key types -----------------------------------------------------------------------------

// SKey is the "any other type" key: ordered and layered by its marshaled form.
type SKey struct {
	A int
	B string
}

// PVal is a comparable value type that holds a pointer: == compares addresses, reflect.DeepEqual contents.
type PVal struct {
	A int     `json:"A"`
	P *string `json:"p,omitempty"`
}

// UKey is a user key implementing mast.Key with an explicit layer.
type UKey struct {
	K int64
	L uint8
}

func (u UKey) Layer(bf uint) uint8 { return u.L }
func (u UKey) Order(o mast.Key) int {
	// only the sign is meaningful: magnitudes vary, as with a subtracting comparator
	v := o.(UKey)
	if u.K < v.K {
		return -1 - int((uint64(v.K)-uint64(u.K))%4)
	} else if u.K > v.K {
		return 1 + int((uint64(u.K)-uint64(v.K))%4)
	}
	return 0
}

var ErrInjected = errors.New("injected fault")

// ---- recording store ------------------------------------------------------------------------

type Store struct {
	mu      sync.Mutex
	m       map[string][]byte
	prefix  string
	Loads   []string
	Stores  []string
	StoreN  int
	w       *World
	Gate    func(name string, b []byte) error // optional: called inside Store before the write
	Running int
	Peak    int
}

func (s *Store) Store(ctx context.Context, name string, b []byte) error {
	s.mu.Lock()
	s.Running++
	if s.Running > s.Peak {
		s.Peak = s.Running
	}
	n := s.StoreN
	s.StoreN++
	gate := s.Gate
	s.mu.Unlock()
	defer func() { s.mu.Lock(); s.Running--; s.mu.Unlock() }()
	if s.w != nil && s.w.hit("store", n) {
		s.mu.Lock()
		s.Stores = append(s.Stores, name+":FAILED")
		s.mu.Unlock()
		return ErrInjected
	}
	if s.w != nil && s.w.Opts["slowstore"] == "1" {
		// a store with latency: widens the window between a write being queued and the persist committing
		time.Sleep(time.Duration(150+len(name)%7*40) * time.Microsecond)
	} else if s.w != nil && s.w.Opts["slowstore"] == "2" {
		time.Sleep(3 * time.Millisecond)
	}
	if gate != nil {
		if err := gate(name, b); err != nil {
			s.mu.Lock()
			s.Stores = append(s.Stores, name+":GATEFAIL")
			s.mu.Unlock()
			return err
		}
	}
	s.mu.Lock()
	defer s.mu.Unlock()
	s.Stores = append(s.Stores, name+":"+hexs(b))
	if _, ok := s.m[name]; !ok {
		s.m[name] = append([]byte{}, b...)
	}
	return nil
}

func (s *Store) Load(ctx context.Context, name string) ([]byte, error) {
	s.mu.Lock()
	s.Loads = append(s.Loads, name)
	b, ok := s.m[name]
	s.mu.Unlock()
	if s.w != nil && s.w.hitSeq("load") {
		return nil, ErrInjected
	}
	if !ok {
		return nil, fmt.Errorf("not found: %s", name)
	}
	return append([]byte{}, b...), nil
}

func (s *Store) NodeURLPrefix() string { return s.prefix }
func (s *Store) Has(name string) bool {
	s.mu.Lock()
	defer s.mu.Unlock()
	_, ok := s.m[name]
	return ok
}
func (s *Store) Get(name string) []byte {
	s.mu.Lock()
	defer s.mu.Unlock()
	return s.m[name]
}
func (s *Store) Put(name string, b []byte) { s.mu.Lock(); s.m[name] = b; s.mu.Unlock() }
func (s *Store) Names() []string {
	s.mu.Lock()
	defer s.mu.Unlock()
	var r []string
	for k := range s.m {
		r = append(r, k)
	}
	sort.Strings(r)
	return r
}

// ---- world ----------------------------------------------------------------------------------

type treeT struct {
	m     *mast.Mast
	kind  int
	store int
}

type World struct {
	Ctx     context.Context
	Trees   map[int]*treeT
	Roots   map[int]*mast.Root
	StoresM map[int]*Store
	Curs    map[int]*mast.Cursor
	Opts    map[string]string
	cache   mast.NodeCache

	// fault injection: fail the FaultAt-th call (0-based) of FaultKind during the current op
	FaultKind string
	FaultAt   int
	counts    map[string]int
	FaultSite string
	Fired     bool
	mu        sync.Mutex
	mm        sync.Mutex
	NoCollect bool
}

func NewWorld(opts map[string]string) *World {
	w := &World{Trees: map[int]*treeT{}, Roots: map[int]*mast.Root{}, StoresM: map[int]*Store{},
		Curs: map[int]*mast.Cursor{}, Opts: opts, counts: map[string]int{}, FaultAt: -1}
	switch opts["cache"] {
	case "big":
		w.cache = mast.NewNodeCache(100000)
	case "tiny":
		w.cache = mast.NewNodeCache(2)
	}
	return w
}

func (w *World) Counts() map[string]int { return w.counts }

// WrapCache replaces the node cache every tree of this world is configured with (before any tree exists)
func (w *World) WrapCache(f func(mast.NodeCache) mast.NodeCache) {
	if w.cache != nil {
		w.cache = f(w.cache)
	}
}

// map accessors: histories for the concurrency engine run operations of different trees from
// different goroutines, so the harness's own bookkeeping is locked
func (w *World) getTree(i int) *treeT         { w.mm.Lock(); defer w.mm.Unlock(); return w.Trees[i] }
func (w *World) setTree(i int, t *treeT)      { w.mm.Lock(); w.Trees[i] = t; w.mm.Unlock() }
func (w *World) getRoot(i int) *mast.Root     { w.mm.Lock(); defer w.mm.Unlock(); return w.Roots[i] }
func (w *World) setRoot(i int, r *mast.Root)  { w.mm.Lock(); w.Roots[i] = r; w.mm.Unlock() }
func (w *World) getCur(i int) *mast.Cursor    { w.mm.Lock(); defer w.mm.Unlock(); return w.Curs[i] }
func (w *World) setCur(i int, c *mast.Cursor) { w.mm.Lock(); w.Curs[i] = c; w.mm.Unlock() }
func (w *World) Store(i int) *Store           { return w.store(i) }
func (w *World) GetRoot(i int) *mast.Root     { return w.getRoot(i) }
func (w *World) GetTree(i int) *treeT         { return w.getTree(i) }
func (t *treeT) StoreID() int                 { return t.store }
func (t *treeT) Kind() int                    { return t.kind }
func (w *World) ResetCounts()                 { w.counts = map[string]int{}; w.Fired = false; w.FaultSite = "" }

func (w *World) hitSeq(kind string) bool {
	w.mu.Lock()
	defer w.mu.Unlock()
	n := w.counts[kind]
	w.counts[kind] = n + 1
	if w.FaultKind == kind && w.FaultAt == n {
		w.Fired = true
		w.FaultSite = callSite()
		return true
	}
	return false
}
func (w *World) hit(kind string, n int) bool {
	w.mu.Lock()
	defer w.mu.Unlock()
	w.counts[kind]++
	if w.FaultKind == kind && w.FaultAt == n {
		w.Fired = true
		return true
	}
	return false
}

// callSite returns the mast functions on the stack of the faulted call (innermost first)
func callSite() string {
	pc := make([]uintptr, 40)
	n := runtime.Callers(3, pc)
	frames := runtime.CallersFrames(pc[:n])
	var fs []string
	for {
		f, more := frames.Next()
		if strings.Contains(f.Function, "jrhy/mast.") {
			fn := f.Function[strings.LastIndex(f.Function, "mast.")+5:]
			fs = append(fs, fn)
		}
		if !more {
			break
		}
	}
	return strings.Join(fs, "<")
}

func (w *World) store(i int) *Store {
	w.mm.Lock()
	defer w.mm.Unlock()
	s, ok := w.StoresM[i]
	if !ok {
		s = &Store{m: map[string][]byte{}, prefix: fmt.Sprintf("store%d", i), w: w}
		if w.Opts["sameprefix"] == "1" {
			s.prefix = "store"
		}
		w.StoresM[i] = s
	}
	return s
}

func (w *World) keysLike(kind int) interface{} {
	wide := w.Opts["wide"] == "1"
	switch kind {
	case 0:
		if wide {
			return int64(0)
		}
		return int(0)
	case 1:
		if wide {
			return uint64(0)
		}
		return uint(0)
	case 2:
		return ""
	case 3:
		return []byte{}
	case 4:
		return SKey{}
	default:
		return UKey{}
	}
}

func (w *World) valuesLike() interface{} {
	switch w.Opts["vt"] {
	case "int":
		return int(0)
	case "str":
		return ""
	case "ints":
		return []int{}
	case "pst":
		return PVal{}
	default:
		return json.RawMessage{}
	}
}

func (w *World) config(kind, store int) *mast.RemoteConfig {
	cfg := &mast.RemoteConfig{
		KeysLike:                w.keysLike(kind),
		ValuesLike:              w.valuesLike(),
		StoreImmutablePartsWith: w.store(store),
		NodeCache:               w.cache,
	}
	if w.Opts["regtypes"] == "1" {
		// the v1marshaler loader for marshalers that know their types: the node is unmarshaled straight into
		// []interface{} (string keys and string values come back as themselves from encoding/json)
		cfg.KeysLike = nil
		cfg.ValuesLike = nil
		cfg.UnmarshalerUsesRegisteredTypes = true
	}
	if w.Opts["desc"] == "1" {
		// a caller-supplied key order that is the reverse of the default one: trees of this history are built under it
		base := mast.DefaultKeyCompare(json.Marshal)
		cfg.KeyCompare = func(a, b interface{}) (int, error) {
			c, err := base(a, b)
			return -c, err
		}
	}
	if w.Opts["callbacks"] == "1" {
		// caller-supplied callbacks with the default meaning: the code paths taken when the configuration
		// carries its own key order and marshalers
		base := mast.DefaultKeyCompare(json.Marshal)
		cfg.KeyCompare = func(a, b interface{}) (int, error) {
			c, err := base(a, b)
			return 3 * c, err // only the sign is meaningful
		}
		cfg.Marshal = json.Marshal
		cfg.Unmarshal = json.Unmarshal
	}
	if w.Opts["hooks"] == "1" {
		base := mast.DefaultKeyCompare(json.Marshal)
		cfg.KeyCompare = func(a, b interface{}) (int, error) {
			if w.hitSeq("cmp") {
				return 0, ErrInjected
			}
			return base(a, b)
		}
		cfg.Marshal = func(v interface{}) ([]byte, error) {
			if w.hitSeq("marshal") {
				return nil, ErrInjected
			}
			return json.Marshal(v)
		}
	}
	return cfg
}

func (w *World) parseKey(tok string, kind int) (interface{}, error) {
	p := strings.Split(tok, ":")
	wide := w.Opts["wide"] == "1"
	switch p[0] {
	case "i":
		v, err := strconv.ParseInt(p[1], 10, 64)
		if wide {
			return int64(v), err
		}
		return int(v), err
	case "u":
		v, err := strconv.ParseUint(p[1], 10, 64)
		if wide {
			return uint64(v), err
		}
		return uint(v), err
	case "ni":
		// the narrower signed integer types: ni:<bits>:<decimal>
		v, err := strconv.ParseInt(p[2], 10, 64)
		switch p[1] {
		case "8":
			return int8(v), err
		case "16":
			return int16(v), err
		}
		return int32(v), err
	case "nu":
		v, err := strconv.ParseUint(p[2], 10, 64)
		switch p[1] {
		case "8":
			return uint8(v), err
		case "16":
			return uint16(v), err
		}
		return uint32(v), err
	case "s":
		b, err := unhex(p[1])
		return string(b), err
	case "y":
		b, err := unhex(p[1])
		if b == nil {
			b = []byte{}
		}
		return b, err
	case "b":
		b, err := unhex(p[1])
		if err != nil {
			return nil, err
		}
		var k SKey
		err = json.Unmarshal(b, &k)
		return k, err
	case "k":
		v, err := strconv.ParseInt(p[1], 10, 64)
		if err != nil {
			return nil, err
		}
		l, err := strconv.Atoi(p[2])
		return UKey{v, uint8(l)}, err
	}
	return nil, fmt.Errorf("bad key %s", tok)
}

func showKey(k interface{}) string {
	switch v := k.(type) {
	case int:
		return fmt.Sprintf("i:%d", v)
	case int64:
		return fmt.Sprintf("i:%d", v)
	case uint:
		return fmt.Sprintf("u:%d", v)
	case uint64:
		return fmt.Sprintf("u:%d", v)
	case string:
		return "s:" + hexs([]byte(v))
	case []byte:
		return "y:" + hexs(v)
	case SKey:
		b, _ := json.Marshal(v)
		return "b:" + hexs(b)
	case UKey:
		return fmt.Sprintf("k:%d:%d", v.K, v.L)
	}
	return fmt.Sprintf("?%T", k)
}

func (w *World) parseVal(tok string) (interface{}, error) {
	b, err := unhex(tok)
	if err != nil {
		return nil, err
	}
	if w.Opts["nilvals"] == "1" && string(b) == "null" {
		// set-style use: the value is the nil interface (marshaled as null)
		return nil, nil
	}
	switch w.Opts["vt"] {
	case "int":
		var v int
		err = json.Unmarshal(b, &v)
		return v, err
	case "str":
		var v string
		err = json.Unmarshal(b, &v)
		return v, err
	case "ints":
		v := []int{}
		err = json.Unmarshal(b, &v)
		return v, err
	case "pst":
		var v PVal
		err = json.Unmarshal(b, &v)
		return v, err
	default:
		return json.RawMessage(b), nil
	}
}

// showEntryVal prints the value of an entry that exists: a nil value and a value decoded from null are the
// same contents
func showEntryVal(v interface{}) string {
	if v == nil {
		return hexs([]byte("null"))
	}
	return showVal(v)
}

func showVal(v interface{}) string {
	if v == nil {
		return "nil"
	}
	if r, ok := v.(json.RawMessage); ok {
		return hexs(r)
	}
	b, err := json.Marshal(v)
	if err != nil {
		return "?"
	}
	return hexs(b)
}

func hexs(b []byte) string {
	if len(b) == 0 {
		return "-"
	}
	return hex.EncodeToString(b)
}
func unhex(s string) ([]byte, error) {
	if s == "-" {
		return nil, nil
	}
	return hex.DecodeString(s)
}

func atoi(s string) int { v, _ := strconv.Atoi(s); return v }

// Result of one operation
type Result struct {
	Outcome string // ok err panic bad
	Payload string
	Loads   []string
	Stores  []string
	ErrText string
}

func (r Result) Line(idx int) string {
	o := r.Outcome
	if r.Payload != "" {
		o += " " + r.Payload
	}
	st := append([]string{}, r.Stores...)
	sort.Strings(st)
	return fmt.Sprintf("%d %s | L=%s S=%s", idx, o, strings.Join(r.Loads, ","), strings.Join(st, ","))
}

func (w *World) collect() ([]string, []string) {
	var ls, ss []string
	var ids []int
	w.mm.Lock()
	defer w.mm.Unlock()
	for i := range w.StoresM {
		ids = append(ids, i)
	}
	sort.Ints(ids)
	for _, i := range ids {
		s := w.StoresM[i]
		s.mu.Lock()
		ls = append(ls, s.Loads...)
		ss = append(ss, s.Stores...)
		s.Loads, s.Stores = nil, nil
		s.mu.Unlock()
	}
	return ls, ss
}

// Exec runs one operation line.
func (w *World) Exec(line string) (res Result) {
	ctx := context.Background()
	if w.Ctx != nil {
		ctx = w.Ctx // the schedule engine runs persists under contexts it cancels
	}
	toks := strings.Fields(line)
	defer func() {
		if r := recover(); r != nil {
			res = Result{Outcome: "panic", ErrText: fmt.Sprint(r)}
		}
		if !w.NoCollect {
			res.Loads, res.Stores = w.collect()
		}
	}()
	ok := func(p string) Result { return Result{Outcome: "ok", Payload: p} }
	fail := func(err error) Result { return Result{Outcome: "err", ErrText: err.Error()} }
	bad := Result{Outcome: "bad"}
	tree := func(s string) *treeT { return w.getTree(atoi(s)) }
	switch toks[0] {
	case "layer":
		k, err := w.parseKey(toks[1], -1)
		if err != nil {
			return bad
		}
		bf, _ := strconv.ParseUint(toks[2], 10, 64)
		l, err := mast.DefaultLayer(json.Marshal)(k, uint(bf))
		if err != nil {
			return fail(err)
		}
		return ok(fmt.Sprintf("n:%d", l))
	case "cmp":
		a, err := w.parseKey(toks[1], -1)
		if err != nil {
			return bad
		}
		b, err := w.parseKey(toks[2], -1)
		if err != nil {
			return bad
		}
		c, err := mast.DefaultKeyCompare(json.Marshal)(a, b)
		if err != nil {
			return fail(err)
		}
		if c < 0 {
			c = -1
		} else if c > 0 {
			c = 1
		}
		return ok(fmt.Sprintf("n:%d", c))
	case "new":
		t, s, bf, kind := atoi(toks[1]), atoi(toks[2]), atoi(toks[3]), atoi(toks[5])
		var opt *mast.CreateRemoteOptions
		if bf != 0 || toks[4] != "def" {
			opt = &mast.CreateRemoteOptions{BranchFactor: uint(bf)}
			switch toks[4] {
			case "bin":
				opt.NodeFormat = mast.V115Binary
			case "v1":
				opt.NodeFormat = mast.V1Marshaler
			}
		}
		m, err := mast.NewRoot(opt).LoadMast(ctx, w.config(kind, s))
		if err != nil {
			return fail(err)
		}
		w.setTree(t, &treeT{m, kind, s})
		return ok("")
	case "ins", "del":
		t := tree(toks[1])
		if t == nil {
			return bad
		}
		k, err := w.parseKey(toks[2], t.kind)
		if err != nil {
			return bad
		}
		v, err := w.parseVal(toks[3])
		if err != nil {
			return bad
		}
		if toks[0] == "ins" {
			err = t.m.Insert(ctx, k, v)
		} else {
			err = t.m.Delete(ctx, k, v)
		}
		if err != nil {
			return fail(err)
		}
		return ok("")
	case "get":
		t := tree(toks[1])
		if t == nil {
			return bad
		}
		k, err := w.parseKey(toks[2], t.kind)
		if err != nil {
			return bad
		}
		vp := reflect.New(reflect.TypeOf(w.valuesLike()))
		found, err := t.m.Get(ctx, k, vp.Interface())
		if err != nil {
			return fail(err)
		}
		if !found {
			return ok("v:none")
		}
		return ok("v:" + showEntryVal(vp.Elem().Interface()))
	case "size":
		t := tree(toks[1])
		if t == nil {
			return bad
		}
		return ok(fmt.Sprintf("n:%d", t.m.Size()))
	case "height":
		t := tree(toks[1])
		if t == nil {
			return bad
		}
		return ok(fmt.Sprintf("n:%d", t.m.Height()))
	case "iter", "seek", "iterstop", "seekstop":
		t := tree(toks[1])
		if t == nil {
			return bad
		}
		var out []string
		stopAt := -1
		if toks[0] == "iterstop" {
			stopAt = atoi(toks[2])
		} else if toks[0] == "seekstop" {
			stopAt = atoi(toks[3])
		}
		cb := func(k, v interface{}) error {
			out = append(out, showKey(k)+"="+showEntryVal(v))
			if len(out)-1 == stopAt {
				return mast.ErrIterDone
			}
			return nil
		}
		var err error
		if toks[0] == "iter" || toks[0] == "iterstop" {
			err = t.m.Iter(ctx, cb)
		} else {
			var k interface{}
			k, err = w.parseKey(toks[2], t.kind)
			if err != nil {
				return bad
			}
			err = t.m.SeekIter(ctx, k, cb)
		}
		if err != nil {
			return fail(err)
		}
		return ok("l:" + strings.Join(out, ","))
	case "clone":
		t := tree(toks[1])
		if t == nil {
			return bad
		}
		m2, err := t.m.Clone(ctx)
		if err != nil {
			return fail(err)
		}
		w.setTree(atoi(toks[2]), &treeT{&m2, t.kind, t.store})
		return ok("")
	case "dirty":
		t := tree(toks[1])
		if t == nil {
			return bad
		}
		if t.m.IsDirty() {
			return ok("b:1")
		}
		return ok("b:0")
	case "mkroot":
		t := tree(toks[1])
		if t == nil {
			return bad
		}
		r, err := t.m.MakeRoot(ctx)
		if err != nil {
			return fail(err)
		}
		if w.Opts["rootjson"] != "0" {
			// the root record travels through its JSON form
			b, err := json.Marshal(r)
			if err != nil {
				return fail(err)
			}
			var r2 mast.Root
			if err := json.Unmarshal(b, &r2); err != nil {
				return fail(err)
			}
			r = &r2
		}
		w.setRoot(atoi(toks[2]), r)
		b, _ := json.Marshal(r)
		return ok("r:" + string(b))
	case "load":
		r := w.getRoot(atoi(toks[1]))
		if r == nil {
			return bad
		}
		kind, s := atoi(toks[4]), atoi(toks[3])
		m, err := r.LoadMast(ctx, w.config(kind, s))
		if err != nil {
			return fail(err)
		}
		w.setTree(atoi(toks[2]), &treeT{m, kind, s})
		return ok("")
	case "loadnc":
		// LoadMast from the store alone (no node cache): what a replica or a restarted process would see
		r := w.getRoot(atoi(toks[1]))
		if r == nil {
			return bad
		}
		kind, s := atoi(toks[4]), atoi(toks[3])
		cfg := w.config(kind, s)
		cfg.NodeCache = nil
		m, err := r.LoadMast(ctx, cfg)
		if err != nil {
			return fail(err)
		}
		w.setTree(atoi(toks[2]), &treeT{m, kind, s})
		return ok("")
	case "loadord":
		// LoadMast with a caller-supplied key order that differs from the one the tree was built with:
		// "text" compares the printed form of the keys ("10" < "5")
		r := w.getRoot(atoi(toks[1]))
		if r == nil {
			return bad
		}
		kind, s := atoi(toks[4]), atoi(toks[3])
		cfg := w.config(kind, s)
		cfg.NodeCache = nil
		cfg.KeyCompare = func(a, b interface{}) (int, error) {
			x, y := fmt.Sprint(a), fmt.Sprint(b)
			if x < y {
				return -1, nil
			} else if x > y {
				return 1, nil
			}
			return 0, nil
		}
		if len(toks) > 5 && toks[5] == "half" {
			// a coarser order than the builder's: integer keys compared by floor(v/2), so 2k and 2k+1 are equal
			half := func(a interface{}) int64 {
				switch v := a.(type) {
				case int:
					return int64(v) >> 1
				case int64:
					return v >> 1
				case uint:
					return int64(v >> 1)
				case uint64:
					return int64(v >> 1)
				}
				return 0
			}
			cfg.KeyCompare = func(a, b interface{}) (int, error) {
				x, y := half(a), half(b)
				if x < y {
					return -1, nil
				} else if x > y {
					return 1, nil
				}
				return 0, nil
			}
		}
		if len(toks) > 5 && toks[5] == "default" {
			// a reader that configures no key order at all: the default order applies
			cfg.KeyCompare = nil
		}
		// only the sign of a KeyCompare result is meaningful: answer like a subtraction-style comparator would
		if cfg.KeyCompare != nil {
			inner := cfg.KeyCompare
			cfg.KeyCompare = func(a, b interface{}) (int, error) {
				c, err := inner(a, b)
				return 7 * c, err
			}
		}
		if _, err := r.LoadMast(ctx, cfg); err != nil {
			return fail(err)
		}
		return ok("")
	case "rootset":
		r := w.getRoot(atoi(toks[2]))
		if r == nil {
			return bad
		}
		r2 := *r
		if toks[3] != "-" {
			v, _ := strconv.ParseUint(toks[3], 10, 64)
			r2.Size = v
		}
		if toks[4] != "-" {
			r2.Height = uint8(atoi(toks[4]))
		}
		if toks[5] != "-" {
			r2.BranchFactor = uint(atoi(toks[5]))
		}
		if toks[6] == "empty" {
			r2.NodeFormat = ""
		} else if toks[6] != "-" {
			b, _ := unhex(toks[6])
			r2.NodeFormat = string(b)
		}
		if toks[7] == "1" {
			r2.Link = nil
		}
		w.setRoot(atoi(toks[1]), &r2)
		b, _ := json.Marshal(&r2)
		return ok("r:" + string(b))
	case "corrupt":
		s := w.store(atoi(toks[1]))
		r := w.getRoot(atoi(toks[2]))
		if r == nil || r.Link == nil || !s.Has(*r.Link) {
			return bad
		}
		b := s.Get(*r.Link)
		if toks[3] == "droplink" || toks[3] == "addlink" || toks[3] == "dropvalue" {
			// structural damage of a binary-format node: the slice counts no longer fit each other
			nb, fine := damageBinary(b, toks[3], atoi(toks[4]))
			if !fine {
				return bad
			}
			s.Put(*r.Link, nb)
			return ok(fmt.Sprintf("n:%d", len(b)))
		}
		off := atoi(toks[3])
		var nb []byte
		if off > len(b) {
			off = len(b)
		}
		if toks[4] == "-" {
			nb = append([]byte{}, b[:off]...)
		} else {
			nb = append([]byte{}, b[:off]...)
			nb = append(nb, byte(atoi(toks[4])))
			if off+1 <= len(b) {
				nb = append(nb, b[off+1:]...)
			}
		}
		s.Put(*r.Link, nb)
		return ok(fmt.Sprintf("n:%d", len(b)))
	case "cursor":
		t := tree(toks[1])
		if t == nil {
			return bad
		}
		c, err := t.m.Cursor(ctx)
		if err != nil {
			return fail(err)
		}
		w.setCur(atoi(toks[2]), c)
		return ok("")
	case "cmin", "cmax", "cfwd", "cbwd", "cceil", "cget":
		c := w.getCur(atoi(toks[1]))
		if c == nil {
			return bad
		}
		var err error
		switch toks[0] {
		case "cmin":
			err = c.Min(ctx)
		case "cmax":
			err = c.Max(ctx)
		case "cfwd":
			err = c.Forward(ctx)
		case "cbwd":
			err = c.Backward(ctx)
		case "cceil":
			var k interface{}
			k, err = w.parseKey(toks[2], -1)
			if err != nil {
				return bad
			}
			err = c.Ceil(ctx, k)
		case "cget":
			k, v, found := c.Get()
			if !found {
				return ok("e:none")
			}
			return ok("e:" + showKey(k) + "=" + showEntryVal(v))
		}
		if err != nil {
			return fail(err)
		}
		return ok("")
	case "diffcur":
		tn := tree(toks[1])
		if tn == nil {
			return bad
		}
		var old *mast.Mast
		if toks[2] != "-" {
			to := tree(toks[2])
			if to == nil {
				return bad
			}
			old = to.m
		}
		dc, err := tn.m.StartDiff(ctx, old)
		if err != nil {
			return fail(err)
		}
		var out []string
		for {
			d, err := dc.NextEntry(ctx)
			if err == mast.ErrNoMoreDiffs {
				break
			}
			if err != nil {
				return fail(err)
			}
			sign := "~"
			if d.Type == mast.DiffType_Add {
				sign = "+"
			} else if d.Type == mast.DiffType_Remove {
				sign = "-"
			}
			out = append(out, sign+showKey(d.Key)+"="+showVal(d.NewValue)+"/"+showVal(d.OldValue))
		}
		for i := 0; i < 2; i++ {
			if _, err := dc.NextEntry(ctx); err != mast.ErrNoMoreDiffs {
				return Result{Outcome: "err", ErrText: "NextEntry after the end did not return ErrNoMoreDiffs"}
			}
		}
		return ok("d:" + strings.Join(out, ";"))
	case "diff", "difflinks", "diffstop", "difffail":
		tn := tree(toks[1])
		if tn == nil {
			return bad
		}
		var old *mast.Mast
		if toks[2] != "-" {
			to := tree(toks[2])
			if to == nil {
				return bad
			}
			old = to.m
		}
		var out []string
		var err error
		if toks[0] != "difflinks" {
			at := -1
			if toks[0] != "diff" {
				at = atoi(toks[3])
			}
			err = tn.m.DiffIter(ctx, old, func(added, removed bool, k, av, rv interface{}) (bool, error) {
				sign := "~"
				if added {
					sign = "+"
				} else if removed {
					sign = "-"
				}
				out = append(out, sign+showKey(k)+"="+showVal(av)+"/"+showVal(rv))
				if len(out)-1 == at {
					if toks[0] == "diffstop" {
						return false, nil
					}
					return false, ErrInjected
				}
				return true, nil
			})
		} else {
			err = tn.m.DiffLinks(ctx, old, func(removed bool, link interface{}) (bool, error) {
				sign := "A"
				if removed {
					sign = "R"
				}
				if s, ok := link.(string); ok {
					out = append(out, sign+s)
				} else {
					out = append(out, sign+"ptr")
				}
				return true, nil
			})
		}
		if err != nil {
			return fail(err)
		}
		return ok("d:" + strings.Join(out, ";"))
	}
	return bad
}

// ParseHeader parses "# id k=v k=v"
func ParseHeader(line string) (string, map[string]string) {
	f := strings.Fields(line)
	opts := map[string]string{}
	id := ""
	if len(f) > 1 {
		id = f[1]
	}
	for _, kv := range f[2:] {
		if i := strings.Index(kv, "="); i > 0 {
			opts[kv[:i]] = kv[i+1:]
		}
	}
	return id, opts
}

var _ = bytes.Compare

// damageBinary re-cuts a node in the binary format (three length-prefixed slices: keys, values, links):
// droplink k removes the last k links (at least one stays), addlink k appends k empty links, dropvalue k removes
// the last k values.  ok is false when the bytes are not a well-formed binary node or too small for the cut.
func damageBinary(b []byte, mode string, k int) ([]byte, bool) {
	type sec struct {
		start, bodyStart, end int
		count                 int
		elems                 []int // start offset of each element
	}
	var secs []sec
	pos := 0
	for i := 0; i < 3; i++ {
		n, l := binary.Uvarint(b[pos:])
		if l <= 0 || n > uint64(len(b)) {
			return nil, false
		}
		sc := sec{start: pos, bodyStart: pos + l, count: int(n)}
		pos += l
		for j := 0; j < int(n); j++ {
			sc.elems = append(sc.elems, pos)
			m, l2 := binary.Uvarint(b[pos:])
			if l2 <= 0 || pos+l2+int(m) > len(b) {
				return nil, false
			}
			pos += l2 + int(m)
		}
		sc.end = pos
		secs = append(secs, sc)
	}
	if pos != len(b) || k < 1 {
		return nil, false
	}
	recount := func(sc sec, n int, body []byte) []byte {
		var tmp [10]byte
		l := binary.PutUvarint(tmp[:], uint64(n))
		return append(append([]byte{}, tmp[:l]...), body...)
	}
	keys, vals, links := secs[0], secs[1], secs[2]
	switch mode {
	case "droplink":
		if links.count-k < 1 {
			return nil, false
		}
		out := append([]byte{}, b[:links.start]...)
		return append(out, recount(links, links.count-k, b[links.bodyStart:links.elems[links.count-k]])...), true
	case "addlink":
		if links.count == 0 {
			return nil, false
		}
		out := append([]byte{}, b[:links.start]...)
		return append(out, recount(links, links.count+k, append(append([]byte{}, b[links.bodyStart:links.end]...), make([]byte, k)...))...), true
	case "dropvalue":
		if vals.count-k < 0 || keys.count == 0 {
			return nil, false
		}
		out := append([]byte{}, b[:vals.start]...)
		out = append(out, recount(vals, vals.count-k, b[vals.bodyStart:vals.elems[vals.count-k]])...)
		return append(out, b[vals.end:]...), true
	}
	return nil, false
}
