// mastrun: runs histories against the real implementation. Usage: mastrun run < histories > observations
package main

import (
	"bufio"
	"fmt"
	"os"
	"strings"

	"verif/harness/runner"
)

func main() {
	if len(os.Args) < 2 {
		fmt.Fprintln(os.Stderr, "usage: mastrun run|...")
		os.Exit(2)
	}
	switch os.Args[1] {
	case "run":
		run()
	default:
		if f, ok := modes[os.Args[1]]; ok {
			os.Exit(f(os.Args[2:]))
		}
		fmt.Fprintln(os.Stderr, "unknown mode")
		os.Exit(2)
	}
}

var modes = map[string]func([]string) int{}

func run() {
	in := bufio.NewReaderSize(os.Stdin, 1<<20)
	out := bufio.NewWriterSize(os.Stdout, 1<<20)
	defer out.Flush()
	var w *runner.World
	idx := 0
	for {
		line, err := in.ReadString('\n')
		line = strings.TrimRight(line, "\n")
		if line != "" {
			if line[0] == '#' {
				_, opts := runner.ParseHeader(line)
				w = runner.NewWorld(opts)
				idx = 0
				fmt.Fprintln(out, line)
			} else {
				r := w.Exec(line)
				fmt.Fprintln(out, r.Line(idx))
				if r.ErrText != "" && os.Getenv("VERIF_ERRTEXT") == "1" {
					fmt.Fprintf(out, "  ! %s\n", r.ErrText)
				}
				idx++
			}
		}
		if err != nil {
			break
		}
	}
}
