package main

// backend: the node-store contract on the three real backends (C18) and the file store's crash
// points (C17).  `mastrun backend <seed> <n> <workdir>` prints one JSON record per case;
// `mastrun filechild ...` is the child process that performs one file Store under RLIMIT_FSIZE.

import (
	"bytes"
	"context"
	"encoding/hex"
	"encoding/json"
	"errors"
	"fmt"
	"io"
	"math/rand"
	"os"
	"os/exec"
	"os/signal"
	"path/filepath"
	"strconv"
	"strings"
	"sync"
	"syscall"
	"unsafe"

	"github.com/aws/aws-sdk-go/aws"
	"github.com/aws/aws-sdk-go/aws/awserr"
	"github.com/aws/aws-sdk-go/aws/request"
	"github.com/aws/aws-sdk-go/service/s3"
	"github.com/jrhy/mast"
	"github.com/jrhy/mast/persist/file"
	s3p "github.com/jrhy/mast/persist/s3"
)

func init() {
	modes["backend"] = backendMain
	modes["filechild"] = fileChild
	modes["crash"] = crashMain
}

type beRec struct {
	Backend  string   `json:"backend"`
	Case     string   `json:"case"`
	Name     string   `json:"name"`
	Len      int      `json:"len"`
	Problems []string `json:"problems"`
	K        int      `json:"k"`
	Variant  string   `json:"variant,omitempty"`
	Killed   bool     `json:"killed,omitempty"` // the child process died from SIGXFSZ inside write(2)
}

// ---- fake S3 ---------------------------------------------------------------------------------
type fakeS3 struct {
	mu      sync.Mutex
	objs    map[string][]byte // bucket/key
	calls   []string
	failPut bool
	failGet bool
	// the next `transient` PutObject calls consume the body and then fail with this (possibly retryable) AWS error code
	transient     int
	transientCode string
}

func (f *fakeS3) DeleteObjectWithContext(ctx aws.Context, in *s3.DeleteObjectInput, o ...request.Option) (*s3.DeleteObjectOutput, error) {
	return &s3.DeleteObjectOutput{}, nil
}
func (f *fakeS3) GetObjectWithContext(ctx aws.Context, in *s3.GetObjectInput, o ...request.Option) (*s3.GetObjectOutput, error) {
	f.mu.Lock()
	defer f.mu.Unlock()
	f.calls = append(f.calls, "GET "+*in.Bucket+"/"+*in.Key)
	if f.failGet {
		return nil, errors.New("injected s3 get error")
	}
	b, ok := f.objs[*in.Bucket+"/"+*in.Key]
	if !ok {
		return nil, errors.New("NoSuchKey")
	}
	// like a body that arrives over the network: the length is announced, the bytes come in pieces
	n := int64(len(b))
	return &s3.GetObjectOutput{Body: io.NopCloser(&pieces{b: b, step: 1 + len(b)/3}), ContentLength: &n}, nil
}

// pieces hands out a byte slice a few bytes per Read call
type pieces struct {
	b    []byte
	step int
}

func (p *pieces) Read(out []byte) (int, error) {
	if len(p.b) == 0 {
		return 0, io.EOF
	}
	n := p.step
	if n > len(out) {
		n = len(out)
	}
	if n > len(p.b) {
		n = len(p.b)
	}
	copy(out, p.b[:n])
	p.b = p.b[n:]
	return n, nil
}
func (f *fakeS3) PutObjectWithContext(ctx aws.Context, in *s3.PutObjectInput, o ...request.Option) (*s3.PutObjectOutput, error) {
	b, err := io.ReadAll(in.Body)
	f.mu.Lock()
	defer f.mu.Unlock()
	f.calls = append(f.calls, "PUT "+*in.Bucket+"/"+*in.Key)
	if f.failPut {
		return nil, errors.New("injected s3 put error")
	}
	if f.transient > 0 {
		f.transient--
		return nil, awserr.New(f.transientCode, "injected transient s3 put error (body of "+strconv.Itoa(len(b))+" bytes was read)", nil)
	}
	if err != nil {
		return nil, err
	}
	f.objs[*in.Bucket+"/"+*in.Key] = b
	return &s3.PutObjectOutput{}, nil
}

const alphabet = "ABCDEFGHIJKLMNOPQRSTUVWXYZabcdefghijklmnopqrstuvwxyz0123456789-_"

func genName(rng *rand.Rand) string {
	n := 43
	b := make([]byte, n)
	for i := range b {
		b[i] = alphabet[rng.Intn(len(alphabet))]
	}
	switch rng.Intn(6) {
	case 0:
		b[0] = '-'
	case 1:
		b[0] = '_'
	case 2:
		b[0], b[1] = '-', '-'
	}
	return string(b)
}

func genBytes(rng *rand.Rand) []byte {
	var n int
	switch rng.Intn(6) {
	case 0:
		n = 0
	case 1:
		n = 1
	case 2:
		n = 1 << 16
	case 3:
		n = 300000 + rng.Intn(1000)
	default:
		n = rng.Intn(400)
	}
	b := make([]byte, n)
	rng.Read(b)
	if n > 3 && rng.Intn(2) == 0 {
		b[0], b[1], b[2] = 0, 255, '\n'
	}
	return b
}

func contract(name string, p mast.Persist, rng *rand.Rand, n int, enc *json.Encoder, after func(nm string, b []byte) []string) {
	ctx := context.Background()
	for i := 0; i < n; i++ {
		nm, b := genName(rng), genBytes(rng)
		rec := beRec{Backend: name, Case: "roundtrip", Name: nm, Len: len(b), Problems: []string{}}
		if _, err := p.Load(ctx, nm); err == nil {
			rec.Problems = append(rec.Problems, "loading a name never written returned no error")
		}
		if err := p.Store(ctx, nm, b); err != nil {
			rec.Problems = append(rec.Problems, "store failed: "+err.Error())
		} else {
			got, err := p.Load(ctx, nm)
			if err != nil {
				rec.Problems = append(rec.Problems, "load after a successful store failed: "+err.Error())
			} else if !bytes.Equal(got, b) {
				rec.Problems = append(rec.Problems, fmt.Sprintf("load returned %d bytes, stored %d", len(got), len(b)))
			}
			// same pair again, sequentially and concurrently
			if err := p.Store(ctx, nm, b); err != nil {
				rec.Problems = append(rec.Problems, "re-store failed: "+err.Error())
			}
			var wg sync.WaitGroup
			errs := make([]error, 4)
			for j := 0; j < 4; j++ {
				wg.Add(1)
				go func(j int) { defer wg.Done(); errs[j] = p.Store(ctx, nm, b) }(j)
			}
			wg.Wait()
			for _, e := range errs {
				if e != nil {
					rec.Problems = append(rec.Problems, "concurrent re-store failed: "+e.Error())
					break
				}
			}
			got, err = p.Load(ctx, nm)
			if err != nil || !bytes.Equal(got, b) {
				rec.Problems = append(rec.Problems, "after re-stores the name no longer loads with its bytes")
			}
			if after != nil {
				rec.Problems = append(rec.Problems, after(nm, b)...)
			}
		}
		enc.Encode(rec)
		if i%3 == 0 {
			// a name nobody has written yet, stored by several writers at once (as the 40 Store goroutines of two
			// trees persisting the same node do), with a payload large enough for their writes to overlap, while a
			// reader polls: every Store must succeed, the reader sees not-found or the complete bytes, and the
			// name loads afterwards
			nm2 := genName(rng)
			big := make([]byte, 1<<20+rng.Intn(1<<20))
			rng.Read(big)
			rec := beRec{Backend: name, Case: "concurrent-first-store", Name: nm2, Len: len(big), Problems: []string{}}
			var wg sync.WaitGroup
			errs := make([]error, 8)
			stop := make(chan struct{})
			var partial string
			var rwg sync.WaitGroup
			rwg.Add(1)
			go func() {
				defer rwg.Done()
				for {
					select {
					case <-stop:
						return
					default:
					}
					if got, err := p.Load(ctx, nm2); err == nil && !bytes.Equal(got, big) && partial == "" {
						partial = fmt.Sprintf("a concurrent Load returned %d of %d bytes", len(got), len(big))
					}
				}
			}()
			for j := range errs {
				wg.Add(1)
				go func(j int) { defer wg.Done(); errs[j] = p.Store(ctx, nm2, big) }(j)
			}
			wg.Wait()
			close(stop)
			rwg.Wait()
			if partial != "" {
				rec.Problems = append(rec.Problems, partial)
			}
			for _, e := range errs {
				if e != nil {
					rec.Problems = append(rec.Problems, "concurrent first store failed: "+e.Error())
					break
				}
			}
			if got, err := p.Load(ctx, nm2); err != nil || !bytes.Equal(got, big) {
				rec.Problems = append(rec.Problems, "after concurrent first stores (all reported success) the name does not load with its bytes")
			}
			if after != nil {
				rec.Problems = append(rec.Problems, after(nm2, big)...)
			}
			enc.Encode(rec)
		}
	}
}

func backendMain(args []string) int {
	seed, _ := strconv.ParseInt(args[0], 10, 64)
	n, _ := strconv.Atoi(args[1])
	work := args[2]
	enc := json.NewEncoder(os.Stdout)
	rng := rand.New(rand.NewSource(seed))
	ctx := context.Background()

	contract("memory", mast.NewInMemoryStore(), rng, n, enc, nil)

	dir := filepath.Join(work, "files")
	os.RemoveAll(dir)
	os.MkdirAll(dir, 0755)
	contract("file", file.NewPersistForPath(dir), rng, n, enc, func(nm string, b []byte) []string {
		got, err := os.ReadFile(filepath.Join(dir, nm))
		if err != nil || !bytes.Equal(got, b) {
			return []string{"the node is not the file basepath/name"}
		}
		ents, _ := os.ReadDir(dir)
		for _, e := range ents {
			if strings.HasPrefix(e.Name(), ".tmp") {
				return []string{"temporary file left behind: " + e.Name()}
			}
		}
		return nil
	})
	// file store: errors of the backend must reach the caller
	{
		notdir := filepath.Join(work, "plainfile")
		os.WriteFile(notdir, []byte("x"), 0644)
		p := file.NewPersistForPath(notdir) // every path below it fails with ENOTDIR
		rec := beRec{Backend: "file", Case: "stat-error", Name: "n", Problems: []string{}}
		err := p.Store(ctx, "AAAA", []byte("abc"))
		if err == nil {
			if _, lerr := p.Load(ctx, "AAAA"); lerr != nil {
				rec.Problems = append(rec.Problems, "Store reported success although the node could not be written (base path is not a directory); Load then fails: "+lerr.Error())
			}
		}
		enc.Encode(rec)
		missing := filepath.Join(work, "no-such-dir")
		os.RemoveAll(missing)
		rec = beRec{Backend: "file", Case: "write-error", Name: "n", Problems: []string{}}
		if err := file.NewPersistForPath(missing).Store(ctx, "AAAA", []byte("abc")); err == nil {
			rec.Problems = append(rec.Problems, "Store into a missing directory reported success")
		}
		enc.Encode(rec)
	}
	// S3
	for _, pfx := range []string{"", "nodes/", "a/b-", "x"} {
		fs := &fakeS3{objs: map[string][]byte{}}
		bucket := "bucket-" + strconv.Itoa(len(pfx))
		p := s3p.NewPersist(fs, "http://endpoint", bucket, pfx)
		pp := &p
		contract("s3", pp, rng, n/2+1, enc, func(nm string, b []byte) []string {
			fs.mu.Lock()
			defer fs.mu.Unlock()
			var out []string
			if got, ok := fs.objs[bucket+"/"+pfx+nm]; !ok || !bytes.Equal(got, b) {
				out = append(out, "object "+bucket+"/"+pfx+nm+" does not hold the bytes")
			}
			for _, c := range fs.calls {
				if !strings.HasSuffix(c, " "+bucket+"/"+pfx+nm) && strings.Contains(c, nm) {
					out = append(out, "unexpected S3 call "+c)
				}
			}
			for k := range fs.objs {
				if !strings.HasPrefix(k, bucket+"/"+pfx) {
					out = append(out, "object outside bucket/prefix: "+k)
				}
			}
			return out
		})
		rec := beRec{Backend: "s3", Case: "errors", Name: pfx, Problems: []string{}}
		fs.failPut = true
		if err := pp.Store(ctx, "ERRNAME", []byte("zz")); err == nil {
			rec.Problems = append(rec.Problems, "PutObject error not returned by Store")
		}
		fs.failPut = false
		// the failed name is stored again once the fault has cleared: it must really be written
		if err := pp.Store(ctx, "ERRNAME", []byte("zz")); err != nil {
			rec.Problems = append(rec.Problems, "Store of a name whose earlier PutObject failed: "+err.Error())
		} else if b, lerr := pp.Load(ctx, "ERRNAME"); lerr != nil || !bytes.Equal(b, []byte("zz")) {
			rec.Problems = append(rec.Problems, "Store of a name whose earlier PutObject failed reported success but the name does not load")
		}
		// the same Persist value used under another prefix: the name is written there too
		p2 := p
		p2.Prefix = pfx + "other/"
		if err := (&p2).Store(ctx, "OKNAME2", []byte("yy")); err == nil {
			if err := pp.Store(ctx, "OKNAME2", []byte("yy")); err != nil {
				rec.Problems = append(rec.Problems, "Store under the original prefix failed: "+err.Error())
			}
			fs.mu.Lock()
			_, ok1 := fs.objs[bucket+"/"+pfx+"other/OKNAME2"]
			_, ok2 := fs.objs[bucket+"/"+pfx+"OKNAME2"]
			fs.mu.Unlock()
			if !ok1 || !ok2 {
				rec.Problems = append(rec.Problems, "a name stored through two prefixes of one Persist value is not present under both")
			}
		}
		// a PutObject that fails once after the body was sent (time-out, connection reset, throttling, denial): Store
		// must either report the error, or - if it tries again by itself - leave exactly the bytes under the name
		for ci, code := range []string{"RequestTimeout", "RequestError", "ResponseTimeout", "Throttling", "SlowDown", "AccessDenied"} {
			nm := "TRANSIENT" + strconv.Itoa(ci)
			payload := bytes.Repeat([]byte{byte('a' + ci)}, 1+ci*700)
			fs.mu.Lock()
			fs.transient, fs.transientCode = 1, code
			fs.mu.Unlock()
			err := pp.Store(ctx, nm, payload)
			fs.mu.Lock()
			got, ok := fs.objs[bucket+"/"+pfx+nm]
			fs.transient = 0
			fs.mu.Unlock()
			if err == nil && (!ok || !bytes.Equal(got, payload)) {
				rec.Problems = append(rec.Problems, "Store reported success after a PutObject that failed with "+code+" but the object holds "+strconv.Itoa(len(got))+" of "+strconv.Itoa(len(payload))+" bytes")
			}
			if ok && !bytes.Equal(got, payload) {
				rec.Problems = append(rec.Problems, "after a PutObject failing with "+code+" the name is bound to "+strconv.Itoa(len(got))+" bytes that are not the node ("+strconv.Itoa(len(payload))+" bytes)")
			}
			if err == nil {
				if b, lerr := pp.Load(ctx, nm); lerr != nil || !bytes.Equal(b, payload) {
					rec.Problems = append(rec.Problems, "Load after a successful Store (PutObject failed once with "+code+") does not return the bytes")
				}
			}
		}
		pp.Store(ctx, "OKNAME", []byte("zz"))
		fs.failGet = true
		if _, err := pp.Load(ctx, "OKNAME"); err == nil {
			rec.Problems = append(rec.Problems, "GetObject error not returned by Load")
		}
		fs.failGet = false
		if pp.NodeURLPrefix() != "http://endpoint/"+bucket+"/"+pfx {
			rec.Problems = append(rec.Problems, "NodeURLPrefix "+pp.NodeURLPrefix())
		}
		enc.Encode(rec)
	}
	return 0
}

// filechild <dir> <name> <hex> <limit|-1> <ignore|die>: one Store call with the file size limit set
func fileChild(args []string) int {
	dir, name := args[0], args[1]
	b, _ := hex.DecodeString(args[2])
	limit, _ := strconv.ParseInt(args[3], 10, 64)
	if limit >= 0 {
		if args[4] == "ignore" {
			signal.Ignore(syscall.SIGXFSZ)
		} else {
			// a real crash: put SIGXFSZ back to its default disposition (the Go runtime installs a handler that
			// swallows it), so that the kernel kills this process inside write(2) after exactly `limit` bytes
			var act [4]uint64
			if _, _, e := syscall.RawSyscall6(syscall.SYS_RT_SIGACTION, uintptr(syscall.SIGXFSZ), uintptr(unsafe.Pointer(&act)), 0, 8, 0, 0); e != 0 {
				fmt.Println("rt_sigaction:", e)
				return 3
			}
		}
		lim := syscall.Rlimit{Cur: uint64(limit), Max: uint64(limit)}
		if len(args) > 5 && args[5] == "retry" {
			lim.Max = ^uint64(0)
		}
		if err := syscall.Setrlimit(syscall.RLIMIT_FSIZE, &lim); err != nil {
			fmt.Println("setrlimit:", err)
			return 3
		}
	}
	err := file.NewPersistForPath(dir).Store(context.Background(), name, b)
	if len(args) > 5 && args[5] == "retry" && limit >= 0 {
		// the same process tries again once the disk has room (only the soft limit was lowered)
		lim := syscall.Rlimit{Cur: ^uint64(0), Max: ^uint64(0)}
		if e := syscall.Setrlimit(syscall.RLIMIT_FSIZE, &lim); e != nil {
			fmt.Println("setrlimit back:", e)
			return 3
		}
		first := "ok"
		if err != nil {
			first = "err"
		}
		err2 := file.NewPersistForPath(dir).Store(context.Background(), name, b)
		if err2 != nil {
			fmt.Println("RETRY-ERR first="+first, err2)
			return 1
		}
		fmt.Println("RETRY-OK first=" + first)
		return 0
	}
	if err != nil {
		fmt.Println("ERR", err)
		return 1
	}
	fmt.Println("OK")
	return 0
}

// crash <seed> <n> <workdir>: every byte offset at which the write of a node file can stop
func crashMain(args []string) int {
	seed, _ := strconv.ParseInt(args[0], 10, 64)
	n, _ := strconv.Atoi(args[1])
	work := args[2]
	enc := json.NewEncoder(os.Stdout)
	rng := rand.New(rand.NewSource(seed))
	self, _ := os.Executable()
	ctx := context.Background()
	for c := 0; c < n; c++ {
		nm := genName(rng)
		ln := []int{1, 2, 7, 33, 100, 257}[rng.Intn(6)]
		b := make([]byte, ln)
		rng.Read(b)
		for _, variant := range []string{"ignore", "die"} {
			for k := 0; k <= ln; k++ {
				dir := filepath.Join(work, fmt.Sprintf("crash-%d-%s-%d", c, variant, k))
				os.RemoveAll(dir)
				os.MkdirAll(dir, 0755)
				rec := beRec{Backend: "file", Case: "crash", Name: nm, Len: ln, K: k, Variant: variant, Problems: []string{}}
				out, err := exec.Command(self, "filechild", dir, nm, hex.EncodeToString(b), strconv.Itoa(k), variant).CombinedOutput()
				reported := err == nil && strings.HasPrefix(string(out), "OK")
				if ee, ok := err.(*exec.ExitError); ok {
					if ws, ok := ee.Sys().(syscall.WaitStatus); ok && ws.Signaled() {
						rec.Killed = true
					}
				}
				if variant == "die" && k < ln && !rec.Killed {
					rec.Problems = append(rec.Problems, "harness: the child was not killed by SIGXFSZ (no crash was exercised): "+strings.TrimSpace(string(out)))
				}
				p := file.NewPersistForPath(dir)
				got, lerr := p.Load(ctx, nm)
				if lerr == nil && !bytes.Equal(got, b) {
					rec.Problems = append(rec.Problems, fmt.Sprintf("after a write cut at byte %d (%s) Load returns %d of %d bytes", k, variant, len(got), ln))
				}
				if reported && (lerr != nil || !bytes.Equal(got, b)) {
					rec.Problems = append(rec.Problems, "Store reported success but the node is not complete")
				}
				// restart and store again: must repair, not skip
				out2, err2 := exec.Command(self, "filechild", dir, nm, hex.EncodeToString(b), "-1", "ignore").CombinedOutput()
				if err2 != nil {
					rec.Problems = append(rec.Problems, "re-store failed: "+strings.TrimSpace(string(out2)))
				}
				got, lerr = p.Load(ctx, nm)
				if lerr != nil || !bytes.Equal(got, b) {
					rec.Problems = append(rec.Problems, fmt.Sprintf("after re-storing the node (cut at %d, %s) Load does not return the complete bytes", k, variant))
				}
				os.RemoveAll(dir)
				enc.Encode(rec)
				if variant == "ignore" && k < ln {
					// an I/O error at byte k, then the SAME process stores the node again: a write that reports success
					// is complete (nothing remembered from the failed attempt may skip it)
					os.MkdirAll(dir, 0755)
					rec3 := beRec{Backend: "file", Case: "retry", Name: nm, Len: ln, K: k, Variant: "retry", Problems: []string{}}
					out3, err3 := exec.Command(self, "filechild", dir, nm, hex.EncodeToString(b), strconv.Itoa(k), "ignore", "retry").CombinedOutput()
					o3 := strings.TrimSpace(string(out3))
					got3, lerr3 := file.NewPersistForPath(dir).Load(ctx, nm)
					if err3 == nil && strings.HasPrefix(o3, "RETRY-OK") {
						if lerr3 != nil || !bytes.Equal(got3, b) {
							rec3.Problems = append(rec3.Problems, fmt.Sprintf("the write was cut at byte %d with an I/O error, the same process stored the node again and was told it succeeded (%s), but Load does not return the complete bytes", k, o3))
						}
					} else if lerr3 == nil && !bytes.Equal(got3, b) {
						rec3.Problems = append(rec3.Problems, fmt.Sprintf("after a failed retry (%s) Load returns %d of %d bytes", o3, len(got3), ln))
					}
					os.RemoveAll(dir)
					enc.Encode(rec3)
				}
			}
		}
	}
	return 0
}
