package main

// cachehook: the histories of the race engine, run on one goroutine with the interleaving chosen
// instead of left to the scheduler.  The node cache the trees share is wrapped; after the k-th
// call one goroutine's operations make into the cache (Add, Get or Contains -- the points where a
// node passes between trees), all the operations of another goroutine's trees run to completion,
// as if that goroutine had been scheduled exactly there.  Both must observe what they observe
// when run alone after the same setup.  One JSON record per history.

import (
	"bufio"
	"encoding/json"
	"fmt"
	"os"
	"sort"
	"strconv"
	"strings"

	"github.com/jrhy/mast"
	"verif/harness/runner"
)

func init() { modes["cachehook"] = cachehookMain }

type hookCache struct {
	inner mast.NodeCache
	on    bool
	n     int
	at    int
	fire  func()
	kinds []string
}

func (c *hookCache) event(kind string) {
	if !c.on {
		return
	}
	k := c.n
	c.n++
	c.kinds = append(c.kinds, kind)
	if k == c.at && c.fire != nil {
		c.on = false
		c.fire()
		c.on = true
	}
}
func (c *hookCache) Add(key, value interface{}) { c.inner.Add(key, value); c.event("add") }
func (c *hookCache) Contains(key interface{}) bool {
	r := c.inner.Contains(key)
	c.event("contains")
	return r
}
func (c *hookCache) Get(key interface{}) (interface{}, bool) {
	v, ok := c.inner.Get(key)
	c.event("get")
	return v, ok
}

type hookRec struct {
	Hist     string         `json:"hist"`
	Threads  int            `json:"threads"`
	Points   int            `json:"points"`
	Kinds    map[string]int `json:"kinds"`
	Problems []string       `json:"problems"`
}

func cachehookMain(args []string) int {
	in := bufio.NewReaderSize(os.Stdin, 1<<20)
	out := bufio.NewWriterSize(os.Stdout, 1<<20)
	defer out.Flush()
	enc := json.NewEncoder(out)
	maxPoints := 16
	if len(args) > 0 {
		maxPoints, _ = strconv.Atoi(args[0])
	}
	var header string
	var ops []string
	flush := func() {
		if header == "" {
			return
		}
		hid, opts := runner.ParseHeader(header)
		delete(opts, "slowstore") // the delays that make goroutines overlap in the race engine serve no purpose here
		var setup []string
		threads := map[int][]string{}
		for _, o := range ops {
			if o[0] == '@' {
				sp := strings.Index(o, " ")
				t, _ := strconv.Atoi(o[1:sp])
				threads[t] = append(threads[t], o[sp+1:])
			} else {
				setup = append(setup, o)
			}
		}
		rec := hookRec{Hist: hid, Threads: len(threads), Kinds: map[string]int{}, Problems: []string{}}
		if opts["cache"] != "big" && opts["cache"] != "tiny" || len(threads) < 2 {
			enc.Encode(rec)
			return
		}
		fresh := func() (*runner.World, *hookCache) {
			w := runner.NewWorld(opts)
			var hc *hookCache
			w.WrapCache(func(c mast.NodeCache) mast.NodeCache { hc = &hookCache{inner: c, at: -1}; return hc })
			w.NoCollect = true
			for _, o := range setup {
				w.Exec(o)
			}
			return w, hc
		}
		run := func(w *runner.World, os_ []string) []string {
			var res []string
			for _, o := range os_ {
				r := w.Exec(o)
				res = append(res, r.Outcome+" "+r.Payload)
			}
			return res
		}
		var ids []int
		for t := range threads {
			ids = append(ids, t)
		}
		sort.Ints(ids)
		expected := map[int][]string{}
		events := map[int]int{}
		for _, t := range ids {
			w, hc := fresh()
			hc.on = true
			expected[t] = run(w, threads[t])
			events[t] = hc.n
			for _, k := range hc.kinds {
				rec.Kinds[k]++
			}
		}
		first := func(a, b []string, os_ []string) string {
			for i := range a {
				if i >= len(b) || a[i] != b[i] {
					g := "nothing"
					if i < len(b) {
						g = b[i]
					}
					return fmt.Sprintf("op %d (%s): interleaved %s, alone %s", i, os_[i], cut(g), cut(a[i]))
				}
			}
			return ""
		}
	pairs:
		for i, a := range ids {
			b := ids[(i+1)%len(ids)]
			n := events[a]
			step := 1
			if n > maxPoints {
				step = (n + maxPoints - 1) / maxPoints
			}
			for k := 0; k < n; k += step {
				w, hc := fresh()
				var gotB []string
				hc.at = k
				hc.fire = func() { gotB = run(w, threads[b]) }
				hc.on = true
				gotA := run(w, threads[a])
				hc.on = false
				rec.Points++
				kind := "?"
				if k < len(hc.kinds) {
					kind = hc.kinds[k]
				}
				if gotB == nil {
					continue // the k-th call was not reached this time (it depends on what the cache holds)
				}
				if p := first(expected[a], gotA, threads[a]); p != "" {
					rec.Problems = append(rec.Problems, fmt.Sprintf("goroutine %d, with goroutine %d's operations run right after its cache call %d (%s): %s", a, b, k, kind, p))
					break pairs
				}
				if p := first(expected[b], gotB, threads[b]); p != "" {
					rec.Problems = append(rec.Problems, fmt.Sprintf("goroutine %d, run right after cache call %d (%s) of goroutine %d: %s", b, k, kind, a, p))
					break pairs
				}
			}
		}
		enc.Encode(rec)
	}
	for {
		line, err := in.ReadString('\n')
		line = strings.TrimRight(line, "\n")
		if line != "" {
			if line[0] == '#' {
				flush()
				header, ops = line, nil
			} else {
				ops = append(ops, line)
			}
		}
		if err != nil {
			break
		}
	}
	flush()
	return 0
}
