package main

// sched: for every targeted MakeRoot of every history
//   - a control run records the root and the names written;
//   - schedule runs hold every Store call at a gate and release them in a random order with random
//     delays: when MakeRoot returns no Store may still be running, every node reachable from the
//     root must be loadable from the tree's own store, the root must equal the control root, and
//     at most 40 Store calls may have been in flight;
//   - fault runs make the Store of chosen names fail: MakeRoot must report an error, the tree must
//     stay usable (same contents), a retry with the same faults must fail again, and a retry with
//     the faults cleared must succeed with a complete version and the control root.
// One JSON record per run on stdout.

import (
	"bufio"
	"context"
	"encoding/json"
	"fmt"
	"math/rand"
	"os"
	"sort"
	"strings"
	"sync"
	"time"

	"github.com/jrhy/mast"
	"verif/harness/runner"
)

func init() { modes["sched"] = schedMain }

type schedRec struct {
	Hist     string   `json:"hist"`
	Index    int      `json:"index"`
	Mode     string   `json:"mode"`
	Seed     int64    `json:"seed"`
	Writes   int      `json:"writes"`
	Fail     []string `json:"fail_names,omitempty"`
	Problems []string `json:"problems"`
	Peak     int      `json:"peak"`
	Order    []string `json:"order,omitempty"`
}

// complete reports the names reachable from root that cannot be loaded from the store (no cache)
func complete(w *runner.World, storeID int, kind int, rootTok string) (string, bool) {
	r := w.GetRoot(atoiS(rootTok))
	if r == nil {
		return "no root", false
	}
	// a private world view on the same store without cache
	w2 := runner.NewWorld(map[string]string{"vt": w.Opts["vt"], "wide": w.Opts["wide"], "cache": "none"})
	w2.StoresM[storeID] = w.StoresM[storeID]
	w2.Roots[0] = r
	res := w2.Exec(fmt.Sprintf("load 0 0 %d %d", storeID, kind))
	if res.Outcome != "ok" {
		return "load: " + res.ErrText, false
	}
	res = w2.Exec("iter 0")
	if res.Outcome != "ok" {
		return "iter: " + res.ErrText, false
	}
	return res.Payload, true
}

func atoiS(s string) int { var v int; fmt.Sscanf(s, "%d", &v); return v }

func schedMain(args []string) int {
	in := bufio.NewReaderSize(os.Stdin, 1<<20)
	out := bufio.NewWriterSize(os.Stdout, 1<<20)
	defer out.Flush()
	enc := json.NewEncoder(out)
	var header string
	var ops []string
	flush := func() {
		if header == "" {
			return
		}
		hid, opts := runner.ParseHeader(header)
		from := atoiS(opts["from"])
		nsched := atoiS(opts["nsched"])
		if nsched == 0 {
			nsched = 4
		}
		prefix := func(n int) *runner.World {
			w := runner.NewWorld(opts)
			for _, o := range ops[:n] {
				w.Exec(o)
			}
			return w
		}
		for i, op := range ops {
			f := strings.Fields(op)
			if i < from || f[0] != "mkroot" {
				continue
			}
			tid := f[1]
			// control
			w := prefix(i)
			contents := w.Exec("iter " + tid).Payload
			ctl := w.Exec(op)
			var names []string
			for _, s := range ctl.Stores {
				names = append(names, s[:strings.Index(s, ":")])
			}
			sort.Strings(names)
			if ctl.Outcome != "ok" {
				enc.Encode(schedRec{Hist: hid, Index: i, Mode: "control", Problems: []string{"control MakeRoot failed: " + ctl.ErrText}})
				continue
			}
			tr := w.GetTree(atoiS(tid))
			storeID, kind := tr.StoreID(), tr.Kind()
			enc.Encode(schedRec{Hist: hid, Index: i, Mode: "control", Writes: len(names), Problems: []string{}})
			// schedules
			for s := 0; s < nsched; s++ {
				seed := int64(i*1000 + s)
				rng := rand.New(rand.NewSource(seed))
				w := prefix(i)
				st := w.Store(storeID)
				var mu sync.Mutex
				waiting := map[string]chan struct{}{}
				var order []string
				st.Gate = func(name string, b []byte) error {
					ch := make(chan struct{})
					mu.Lock()
					waiting[name] = ch
					mu.Unlock()
					<-ch
					return nil
				}
				done := make(chan runner.Result, 1)
				go func() { done <- w.Exec(op) }()
				var res runner.Result
				finished := false
				for !finished {
					select {
					case res = <-done:
						finished = true
					case <-time.After(time.Duration(rng.Intn(300)) * time.Microsecond):
						mu.Lock()
						var ks []string
						for k := range waiting {
							ks = append(ks, k)
						}
						sort.Strings(ks)
						// let several calls pile up before releasing one, so that orders really vary
						if len(ks) > 0 && (len(ks) >= 3 || rng.Intn(3) == 0 || len(order)+len(ks) >= len(names)) {
							k := ks[rng.Intn(len(ks))]
							close(waiting[k])
							delete(waiting, k)
							order = append(order, k)
						}
						mu.Unlock()
					}
				}
				st.Gate = nil
				rec := schedRec{Hist: hid, Index: i, Mode: "schedule", Seed: seed, Writes: len(names), Problems: []string{}, Peak: st.Peak, Order: order}
				if st.Running != 0 {
					rec.Problems = append(rec.Problems, fmt.Sprintf("MakeRoot returned while %d Store calls were still running", st.Running))
				}
				mu.Lock()
				if len(waiting) != 0 {
					rec.Problems = append(rec.Problems, fmt.Sprintf("MakeRoot returned while %d Store calls were still held at the gate", len(waiting)))
					for _, ch := range waiting {
						close(ch)
					}
				}
				mu.Unlock()
				if res.Outcome != "ok" {
					rec.Problems = append(rec.Problems, "MakeRoot failed without any failing write: "+res.ErrText)
				} else {
					if res.Payload != ctl.Payload {
						rec.Problems = append(rec.Problems, "root differs from the control run: "+res.Payload+" vs "+ctl.Payload)
					}
					if got, ok := complete(w, storeID, kind, f[2]); !ok {
						rec.Problems = append(rec.Problems, "returned root is not completely in the store: "+got)
					} else if got != contents {
						rec.Problems = append(rec.Problems, "persisted version differs from the tree's contents")
					}
				}
				if st.Peak > 40 {
					rec.Problems = append(rec.Problems, fmt.Sprintf("%d Store calls in flight", st.Peak))
				}
				enc.Encode(rec)
			}
			// failing writes
			var subsets [][]string
			if len(names) <= 10 {
				for _, n := range names {
					subsets = append(subsets, []string{n})
				}
			}
			rng := rand.New(rand.NewSource(int64(i)))
			for k := 0; k < 6 && len(names) > 0; k++ {
				a := names[rng.Intn(len(names))]
				b := names[rng.Intn(len(names))]
				if a == b || k%2 == 0 {
					subsets = append(subsets, []string{a})
				} else {
					subsets = append(subsets, []string{a, b})
				}
			}
			// a context that is cancelled before the persist starts, or while its j-th Store call runs: a persist
			// that reports success must still have written every node (the stores themselves ignore the context)
			for _, at := range []int{-1, 0, len(names) / 2} {
				if at >= len(names) && at > 0 {
					continue
				}
				w := prefix(i)
				st := w.Store(storeID)
				cctx, cancel := context.WithCancel(context.Background())
				if at < 0 {
					cancel()
				} else {
					var mu sync.Mutex
					seen := 0
					st.Gate = func(name string, b []byte) error {
						mu.Lock()
						if seen == at {
							cancel()
						}
						seen++
						mu.Unlock()
						return nil
					}
				}
				w.Ctx = cctx
				rec := schedRec{Hist: hid, Index: i, Mode: "cancel", Writes: len(names), Problems: []string{}}
				res := w.Exec(op)
				w.Ctx = nil
				st.Gate = nil
				cancel()
				if res.Outcome == "ok" {
					if got, ok := complete(w, storeID, kind, f[2]); !ok {
						rec.Problems = append(rec.Problems, fmt.Sprintf("MakeRoot under a context cancelled at write %d reported success but the version is incomplete: %s", at, got))
					}
				} else if res.Outcome == "panic" {
					rec.Problems = append(rec.Problems, "MakeRoot panicked: "+res.ErrText)
				} else {
					if got := w.Exec("iter " + tid); got.Outcome != "ok" || got.Payload != contents {
						rec.Problems = append(rec.Problems, "after the cancelled persist the tree is no longer usable / changed: "+got.Outcome+" "+got.ErrText)
					}
				}
				res3 := w.Exec(op)
				if res3.Outcome != "ok" {
					rec.Problems = append(rec.Problems, "persist after the cancelled one failed: "+res3.ErrText)
				} else if got, ok := complete(w, storeID, kind, f[2]); !ok {
					rec.Problems = append(rec.Problems, "persist after the cancelled one reported success with nodes missing: "+got)
				} else if res3.Payload != ctl.Payload {
					rec.Problems = append(rec.Problems, "persist after the cancelled one returned a different root")
				}
				enc.Encode(rec)
			}
			for _, F := range subsets {
				w := prefix(i)
				st := w.Store(storeID)
				bad := map[string]bool{}
				for _, n := range F {
					bad[n] = true
				}
				st.Gate = func(name string, b []byte) error {
					if bad[name] {
						return runner.ErrInjected
					}
					return nil
				}
				rec := schedRec{Hist: hid, Index: i, Mode: "fault", Writes: len(names), Fail: F, Problems: []string{}}
				// a persist whose write fails must still come back (with the error): give it 30 s
				resCh := make(chan runner.Result, 1)
				go func() { resCh <- w.Exec(op) }()
				var res runner.Result
				select {
				case res = <-resCh:
				case <-time.After(30 * time.Second):
					rec.Problems = append(rec.Problems, "MakeRoot neither returned a root nor reported the failed write within 30 s: it is stuck")
					enc.Encode(rec)
					continue
				}
				if res.Outcome == "ok" {
					// legitimate only if the failing names were never attempted
					attempted := false
					for _, s := range res.Stores {
						if strings.HasSuffix(s, ":GATEFAIL") {
							attempted = true
						}
					}
					if got, ok := complete(w, storeID, kind, f[2]); !ok || attempted {
						rec.Problems = append(rec.Problems, "MakeRoot reported success although a write failed / the version is incomplete: "+got)
					}
				} else {
					if res.Outcome == "panic" {
						rec.Problems = append(rec.Problems, "MakeRoot panicked: "+res.ErrText)
					}
					// usable?
					if got := w.Exec("iter " + tid); got.Outcome != "ok" || got.Payload != contents {
						rec.Problems = append(rec.Problems, "after the failed persist the tree is no longer usable / changed: "+got.Outcome+" "+got.ErrText)
					}
					// same faults: must fail again, never claim success while nodes are missing
					res2 := w.Exec(op)
					if res2.Outcome == "ok" {
						if got, ok := complete(w, storeID, kind, f[2]); !ok {
							rec.Problems = append(rec.Problems, "retry under the same faults reported success with nodes missing: "+got)
						}
					}
					// cleared: must succeed, completely, with the control root
					st.Gate = nil
					res3 := w.Exec(op)
					if res3.Outcome != "ok" {
						rec.Problems = append(rec.Problems, "retry after the fault cleared failed: "+res3.ErrText)
					} else {
						if got, ok := complete(w, storeID, kind, f[2]); !ok {
							rec.Problems = append(rec.Problems, "retry after the fault cleared reported success with nodes missing: "+got)
						} else if got != contents {
							rec.Problems = append(rec.Problems, "retry persisted different contents")
						}
						if res3.Payload != ctl.Payload {
							rec.Problems = append(rec.Problems, "retry root differs from the control root")
						}
					}
					if got := w.Exec("iter " + tid); got.Outcome != "ok" || got.Payload != contents {
						rec.Problems = append(rec.Problems, "tree changed across failed persist and retry")
					}
				}
				enc.Encode(rec)
				// a detour after the failed persist: change one entry, persist, change it back, persist - the tree then
				// holds the original contents again, under the original names; it must read back as such through the
				// node cache the failed persist may have touched, and from the store alone
				if res.Outcome != "ok" && strings.HasPrefix(contents, "l:") && len(contents) > 2 {
					ents := strings.Split(contents[2:], ",")
					pick := ents[(len(F[0])+len(ents)/2)%len(ents)]
					kv := strings.SplitN(pick, "=", 2)
					if len(kv) == 2 {
						w2 := prefix(i)
						st2 := w2.Store(storeID)
						st2.Gate = func(name string, b []byte) error {
							if bad[name] {
								return runner.ErrInjected
							}
							return nil
						}
						rec2 := schedRec{Hist: hid, Index: i, Mode: "fault-detour", Writes: len(names), Fail: F, Problems: []string{}}
						w2.Exec(op)
						st2.Gate = nil
						steps := []string{"ins " + tid + " " + kv[0] + " 3737", op, "ins " + tid + " " + kv[0] + " " + kv[1], op}
						okAll := true
						var last runner.Result
						for _, sline := range steps {
							last = w2.Exec(sline)
							if last.Outcome != "ok" {
								rec2.Problems = append(rec2.Problems, "step after the failed persist failed: "+sline+": "+last.ErrText)
								okAll = false
								break
							}
						}
						if okAll {
							if last.Payload != ctl.Payload {
								rec2.Problems = append(rec2.Problems, "the same contents persisted after the detour have a different root")
							}
							if got, ok := complete(w2, storeID, kind, f[2]); !ok || got != contents {
								rec2.Problems = append(rec2.Problems, "read back from the store alone after the detour: "+got)
							}
							// through the world's own cache
							rl := w2.Exec(fmt.Sprintf("load %s 9000 %d %d", f[2], storeID, kind))
							if rl.Outcome != "ok" {
								rec2.Problems = append(rec2.Problems, "load through the cache after the detour failed: "+rl.ErrText)
							} else if it := w2.Exec("iter 9000"); it.Outcome != "ok" || it.Payload != contents {
								rec2.Problems = append(rec2.Problems, "the version read back through the node cache differs from what was persisted under that name: "+it.Payload)
							}
						}
						enc.Encode(rec2)
					}
				}
			}
		}
	}
	for {
		line, err := in.ReadString('\n')
		line = strings.TrimRight(line, "\n")
		if line != "" {
			if line[0] == '#' {
				flush()
				header, ops = line, nil
			} else {
				ops = append(ops, line)
			}
		}
		if err != nil {
			break
		}
	}
	flush()
	return 0
}

var _ = context.Background
var _ mast.Persist
