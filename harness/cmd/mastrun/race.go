package main

// race: N goroutines, each owning its own trees (clones and reloads of common persisted roots),
// over one store and one node cache.  Lines before the first "@" line are the sequential setup;
// "@i op" lines belong to goroutine i.  The goroutines run concurrently (build this binary with
// -race); every goroutine's observations are compared with those of the same operations run alone
// after the same setup.  One JSON record per history.

import (
	"bufio"
	"encoding/json"
	"os"
	"strconv"
	"strings"
	"sync"

	"verif/harness/runner"
)

func init() { modes["race"] = raceMain }

type raceRec struct {
	Hist     string   `json:"hist"`
	Threads  int      `json:"threads"`
	Ops      int      `json:"ops"`
	Problems []string `json:"problems"`
}

func raceMain(args []string) int {
	in := bufio.NewReaderSize(os.Stdin, 1<<20)
	out := bufio.NewWriterSize(os.Stdout, 1<<20)
	defer out.Flush()
	enc := json.NewEncoder(out)
	var header string
	var ops []string
	flush := func() {
		if header == "" {
			return
		}
		hid, opts := runner.ParseHeader(header)
		var setup []string
		threads := map[int][]string{}
		for _, o := range ops {
			if o[0] == '@' {
				sp := strings.Index(o, " ")
				t, _ := strconv.Atoi(o[1:sp])
				threads[t] = append(threads[t], o[sp+1:])
			} else {
				setup = append(setup, o)
			}
		}
		fresh := func() *runner.World {
			w := runner.NewWorld(opts)
			for _, o := range setup {
				w.Exec(o)
			}
			return w
		}
		// alone
		expected := map[int][]string{}
		for t, os_ := range threads {
			w := fresh()
			for _, o := range os_ {
				r := w.Exec(o)
				expected[t] = append(expected[t], r.Outcome+" "+r.Payload)
			}
		}
		// together
		w := fresh()
		w.NoCollect = true
		got := map[int][]string{}
		var mu sync.Mutex
		var wg sync.WaitGroup
		start := make(chan struct{})
		for t, os_ := range threads {
			wg.Add(1)
			go func(t int, os_ []string) {
				defer wg.Done()
				<-start
				var res []string
				for _, o := range os_ {
					r := w.Exec(o)
					res = append(res, r.Outcome+" "+r.Payload)
				}
				mu.Lock()
				got[t] = res
				mu.Unlock()
			}(t, os_)
		}
		close(start)
		wg.Wait()
		rec := raceRec{Hist: hid, Threads: len(threads), Problems: []string{}}
		// every root a goroutine persisted must be complete in the store itself (read back without the cache),
		// with the contents it has when that goroutine runs alone
		final := func(w *runner.World, t int, os_ []string) []string {
			var res []string
			n := 0
			for _, o := range os_ {
				f := strings.Fields(o)
				if f[0] == "mkroot" {
					n++
					id := strconv.Itoa(9000 + 100*t + n)
					r := w.Exec("loadnc " + f[2] + " " + id + " 0 " + opts["kind"])
					if r.Outcome == "ok" {
						r = w.Exec("iter " + id)
					}
					res = append(res, f[2]+": "+r.Outcome+" "+r.Payload+r.ErrText)
				}
			}
			return res
		}
		for t, os_ := range threads {
			wa := fresh()
			for _, o := range os_ {
				wa.Exec(o)
			}
			exp, gotf := final(wa, t, os_), final(w, t, os_)
			for i := range exp {
				if i < len(gotf) && exp[i] != gotf[i] {
					rec.Problems = append(rec.Problems, "goroutine "+strconv.Itoa(t)+": root "+cut(gotf[i])+" read back from the store alone; alone it is "+cut(exp[i]))
					break
				}
			}
		}
		for t, os_ := range threads {
			rec.Ops += len(os_)
			for i := range os_ {
				if got[t][i] != expected[t][i] {
					rec.Problems = append(rec.Problems, "goroutine "+strconv.Itoa(t)+" op "+strconv.Itoa(i)+" ("+os_[i]+"): together "+cut(got[t][i])+", alone "+cut(expected[t][i]))
					break
				}
			}
		}
		enc.Encode(rec)
	}
	for {
		line, err := in.ReadString('\n')
		line = strings.TrimRight(line, "\n")
		if line != "" {
			if line[0] == '#' {
				flush()
				header, ops = line, nil
			} else {
				ops = append(ops, line)
			}
		}
		if err != nil {
			break
		}
	}
	flush()
	return 0
}

func cut(s string) string {
	if len(s) > 160 {
		return s[:160]
	}
	return s
}
