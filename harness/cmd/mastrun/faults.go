package main

// faults: for every targeted operation of every history, first run it fault-free to count its
// Load / KeyCompare / Marshal calls, then once per call position with that call failing. After a
// faulted call the trees' contents, size and height are read back (fault cleared) and compared with
// what they were before the call; then the same call is retried and must give the fault-free result.
// One JSON record per injected fault on stdout.

import (
	"bufio"
	"encoding/json"
	"fmt"
	"os"
	"strings"

	"verif/harness/runner"
)

func init() { modes["faults"] = faultsMain }

type faultRec struct {
	Hist      string `json:"hist"`
	Index     int    `json:"index"`
	Op        string `json:"op"`
	Kind      string `json:"kind"`
	Pos       int    `json:"pos"`
	Fired     bool   `json:"fired"`
	Outcome   string `json:"outcome"`
	Site      string `json:"site"`
	Unchanged bool   `json:"unchanged"`
	Before    string `json:"before,omitempty"`
	After     string `json:"after,omitempty"`
	RetrySame bool   `json:"retry_same"`
	Retry     string `json:"retry,omitempty"`
	Normal    string `json:"normal,omitempty"`
	ErrText   string `json:"err,omitempty"`
}

func treesOf(op string) []string {
	f := strings.Fields(op)
	switch f[0] {
	case "diff", "difflinks":
		if f[2] != "-" {
			return []string{f[1], f[2]}
		}
		return []string{f[1]}
	case "cmin", "cmax", "cceil", "cfwd", "cbwd", "cget":
		return nil
	case "load":
		return nil
	}
	return []string{f[1]}
}

func observe(w *runner.World, trees []string) string {
	var sb strings.Builder
	for _, t := range trees {
		for _, o := range []string{"size " + t, "height " + t, "iter " + t} {
			r := w.Exec(o)
			sb.WriteString(r.Outcome + " " + r.Payload + ";")
		}
	}
	return sb.String()
}

func targeted(op string) bool {
	switch strings.Fields(op)[0] {
	case "ins", "del", "get", "iter", "seek", "clone", "cursor", "cmin", "cmax", "cceil", "cfwd", "cbwd", "diff", "difflinks":
		return true
	}
	return false
}

func faultsMain(args []string) int {
	in := bufio.NewReaderSize(os.Stdin, 1<<20)
	out := bufio.NewWriterSize(os.Stdout, 1<<20)
	defer out.Flush()
	enc := json.NewEncoder(out)
	var header string
	var ops []string
	flush := func() {
		if header == "" {
			return
		}
		hid, opts := runner.ParseHeader(header)
		opts["hooks"] = "1"
		prefix := func(n int) *runner.World {
			w := runner.NewWorld(opts)
			for _, o := range ops[:n] {
				w.Exec(o)
			}
			return w
		}
		from := 0
		fmt.Sscanf(opts["from"], "%d", &from)
		for i, op := range ops {
			if i < from || !targeted(op) {
				continue
			}
			trees := treesOf(op)
			w := prefix(i)
			before := observe(w, trees)
			w.ResetCounts()
			normal := w.Exec(op)
			counts := map[string]int{}
			for k, v := range w.Counts() {
				counts[k] = v
			}
			w.ResetCounts()
			normalAfter := observe(w, trees)
			normalStr := normal.Outcome + " " + normal.Payload
			for _, kind := range []string{"load", "cmp", "marshal"} {
				for p := 0; p < counts[kind]; p++ {
					w := prefix(i)
					w.ResetCounts()
					w.FaultKind, w.FaultAt = kind, p
					r := w.Exec(op)
					fired, site := w.Fired, w.FaultSite
					w.FaultKind, w.FaultAt = "", -1
					w.ResetCounts()
					after := observe(w, trees)
					rec := faultRec{Hist: hid, Index: i, Op: op, Kind: kind, Pos: p, Fired: fired, Outcome: r.Outcome,
						Site: site, Unchanged: after == before, ErrText: r.ErrText}
					if r.Outcome != "ok" {
						retry := w.Exec(op)
						retryAfter := observe(w, trees)
						rs := retry.Outcome + " " + retry.Payload
						rec.RetrySame = rs == normalStr && retryAfter == normalAfter
						if !rec.RetrySame {
							rec.Retry, rec.Normal = rs+" => "+retryAfter, normalStr+" => "+normalAfter
						}
						if !rec.Unchanged {
							rec.Before, rec.After = before, after
						}
					} else {
						rec.RetrySame = true
						rec.Unchanged = true
					}
					enc.Encode(rec)
				}
			}
		}
	}
	for {
		line, err := in.ReadString('\n')
		line = strings.TrimRight(line, "\n")
		if line != "" {
			if line[0] == '#' {
				flush()
				header, ops = line, nil
			} else {
				ops = append(ops, line)
			}
		}
		if err != nil {
			break
		}
	}
	flush()
	fmt.Fprint(out, "")
	return 0
}
