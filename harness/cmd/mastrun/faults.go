package main

// faults: for every targeted operation of every history, first run it fault-free to count its
// Load / KeyCompare / Marshal calls, then once per call position with that call failing. After a
// faulted call the trees' contents, size and height are read back (fault cleared) and compared with
// what they were before the call; then the same call is retried and must give the fault-free result.
// One JSON record per injected fault on stdout.

import (
	"bufio"
	"encoding/json"
	"fmt"
	"os"
	"strings"

	"verif/harness/runner"
)

func init() { modes["faults"] = faultsMain }

type faultRec struct {
	Hist      string `json:"hist"`
	Index     int    `json:"index"`
	Op        string `json:"op"`
	Kind      string `json:"kind"`
	Pos       int    `json:"pos"`
	Fired     bool   `json:"fired"`
	Outcome   string `json:"outcome"`
	Site      string `json:"site"`
	Unchanged bool   `json:"unchanged"`
	Before    string `json:"before,omitempty"`
	After     string `json:"after,omitempty"`
	RetrySame bool   `json:"retry_same"`
	Retry     string `json:"retry,omitempty"`
	Normal    string `json:"normal,omitempty"`
	ErrText   string `json:"err,omitempty"`
	// for a failed call that changed the tree: is the size / the listing what it was before the call,
	// what the fault-free call makes it, or something else
	// C09 under faults: after the failed call the tree is persisted and the version is read back:
	// "" not checked, "ok", or what is wrong with it
	Persisted    string `json:"persisted,omitempty"`
	PostSize     string `json:"post_size,omitempty"`
	PostContents string `json:"post_contents,omitempty"`
	PostHeight   string `json:"post_height,omitempty"`
}

func classify(before, normal, after string, field int) string {
	b, n, a := strings.Split(before, ";"), strings.Split(normal, ";"), strings.Split(after, ";")
	if field >= len(a) || field >= len(b) || field >= len(n) {
		return "other"
	}
	switch {
	case a[field] == n[field] && a[field] == b[field]:
		return "both"
	case a[field] == n[field]:
		return "normal"
	case a[field] == b[field]:
		return "before"
	}
	return "other"
}

func treesOf(op string) []string {
	f := strings.Fields(op)
	switch f[0] {
	case "diff", "difflinks":
		if f[2] != "-" {
			return []string{f[1], f[2]}
		}
		return []string{f[1]}
	case "cmin", "cmax", "cceil", "cfwd", "cbwd", "cget":
		return nil
	case "load":
		return nil
	}
	return []string{f[1]}
}

// cursor steps are observed through the cursor itself: where it stands after the call
func cursorOf(op string) string {
	f := strings.Fields(op)
	switch f[0] {
	case "cmin", "cmax", "cceil", "cfwd", "cbwd":
		return f[1]
	}
	return ""
}

func observe(w *runner.World, trees []string) string {
	var sb strings.Builder
	for _, t := range trees {
		for _, o := range []string{"size " + t, "height " + t, "iter " + t} {
			r := w.Exec(o)
			sb.WriteString(r.Outcome + " " + r.Payload + ";")
		}
	}
	return sb.String()
}

// persistedCheck persists tree t as it is after a failed call, loads the returned root into a fresh
// tree and compares the recorded size with the number of entries that can be reached
func persistedCheck(w *runner.World, t string) string {
	var ti int
	fmt.Sscanf(t, "%d", &ti)
	tr := w.GetTree(ti)
	if tr == nil {
		return ""
	}
	if r := w.Exec("mkroot " + t + " 9999"); r.Outcome != "ok" {
		return "MakeRoot after the failed call: " + r.Outcome + " " + r.ErrText
	}
	root := w.GetRoot(9999)
	if r := w.Exec(fmt.Sprintf("load 9999 9998 %d %d", tr.StoreID(), tr.Kind())); r.Outcome != "ok" {
		return "LoadMast of the root persisted after the failed call: " + r.Outcome + " " + r.ErrText
	}
	it := w.Exec("iter 9998")
	if it.Outcome != "ok" {
		return "Iter of the version persisted after the failed call: " + it.Outcome + " " + it.ErrText
	}
	n := 0
	if p := strings.TrimPrefix(it.Payload, "l:"); p != "" {
		n = len(strings.Split(p, ","))
	}
	if uint64(n) != root.Size {
		return fmt.Sprintf("the root persisted after the failed call records size %d but %d entries are reachable from it", root.Size, n)
	}
	// ... and every entry the version holds is found by a lookup (the recorded height fits the structure)
	if p := strings.TrimPrefix(it.Payload, "l:"); p != "" {
		for _, kv := range strings.Split(p, ",") {
			e := strings.SplitN(kv, "=", 2)
			if len(e) != 2 {
				continue
			}
			if g := w.Exec("get 9998 " + e[0]); g.Outcome != "ok" || g.Payload != "v:"+e[1] {
				return fmt.Sprintf("the version persisted after the failed call (height %d) holds %s but a lookup answers %s %s", root.Height, kv, g.Outcome, g.Payload)
			}
		}
	}
	return "ok"
}

func targeted(op string) bool {
	switch strings.Fields(op)[0] {
	case "ins", "del", "get", "iter", "seek", "clone", "cursor", "cmin", "cmax", "cceil", "cfwd", "cbwd", "diff", "difflinks":
		return true
	}
	return false
}

func faultsMain(args []string) int {
	in := bufio.NewReaderSize(os.Stdin, 1<<20)
	out := bufio.NewWriterSize(os.Stdout, 1<<20)
	defer out.Flush()
	enc := json.NewEncoder(out)
	var header string
	var ops []string
	flush := func() {
		if header == "" {
			return
		}
		hid, opts := runner.ParseHeader(header)
		opts["hooks"] = "1"
		prefix := func(n int) *runner.World {
			w := runner.NewWorld(opts)
			for _, o := range ops[:n] {
				w.Exec(o)
			}
			return w
		}
		from := 0
		fmt.Sscanf(opts["from"], "%d", &from)
		for i, op := range ops {
			if i < from || !targeted(op) {
				continue
			}
			trees := treesOf(op)
			w := prefix(i)
			before := observe(w, trees)
			w.ResetCounts()
			normal := w.Exec(op)
			counts := map[string]int{}
			for k, v := range w.Counts() {
				counts[k] = v
			}
			w.ResetCounts()
			cur := cursorOf(op)
			where := func(w *runner.World) string {
				if cur == "" {
					return ""
				}
				r := w.Exec("cget " + cur)
				return " cursor:" + r.Outcome + " " + r.Payload
			}
			normalAfter := observe(w, trees) + where(w)
			normalStr := normal.Outcome + " " + normal.Payload
			for _, kind := range []string{"load", "cmp", "marshal"} {
				for p := 0; p < counts[kind]; p++ {
					w := prefix(i)
					w.ResetCounts()
					w.FaultKind, w.FaultAt = kind, p
					r := w.Exec(op)
					fired, site := w.Fired, w.FaultSite
					w.FaultKind, w.FaultAt = "", -1
					w.ResetCounts()
					after := observe(w, trees)
					rec := faultRec{Hist: hid, Index: i, Op: op, Kind: kind, Pos: p, Fired: fired, Outcome: r.Outcome,
						Site: site, Unchanged: after == before, ErrText: r.ErrText}
					if r.Outcome != "ok" {
						if f0 := strings.Fields(op)[0]; opts["persistcheck"] == "1" && (f0 == "ins" || f0 == "del") {
							rec.Persisted = persistedCheck(w, strings.Fields(op)[1])
						}
						retry := w.Exec(op)
						retryAfter := observe(w, trees) + where(w)
						rs := retry.Outcome + " " + retry.Payload
						rec.RetrySame = rs == normalStr && retryAfter == normalAfter
						if !rec.RetrySame {
							rec.Retry, rec.Normal = rs+" => "+retryAfter, normalStr+" => "+normalAfter
						}
						if !rec.Unchanged {
							rec.Before, rec.After = before, after
							rec.PostSize, rec.PostContents = classify(before, normalAfter, after, 0), classify(before, normalAfter, after, 2)
							rec.PostHeight = classify(before, normalAfter, after, 1)
						}
					} else {
						rec.RetrySame = true
						rec.Unchanged = true
					}
					enc.Encode(rec)
				}
			}
		}
	}
	for {
		line, err := in.ReadString('\n')
		line = strings.TrimRight(line, "\n")
		if line != "" {
			if line[0] == '#' {
				flush()
				header, ops = line, nil
			} else {
				ops = append(ops, line)
			}
		}
		if err != nil {
			break
		}
	}
	flush()
	fmt.Fprint(out, "")
	return 0
}
